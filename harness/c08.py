"""C08 - delayed (after) transitions fire when due and never after the state
was left.  (virtual time: VLoop for the async engine, vthreading for the sync
engine; every instant is a symbolic number)

  after_schedule  timer machine TM: state S with two `after` entries (named
      delays resolved at entry from symbolic values d1, d2; the second
      guarded), a leave path (LEAVE, with a slow action of symbolic duration
      a), a re-entry path (RE, BACK), a slow targetless action (NOP) and
      stop().  Two external stimuli at symbolic instants t1 <= t2 of symbolic
      kind. Oracle over the virtual-time stamped log:
        * a delayed transition fires at t only if S has been continuously
          active since an entry at te with t - te >= its delay (as resolved at
          that entry) and its guard holds;
        * at most once per activation; if the interpreter is idle at
          te + d it fires exactly then;
        * an activation that is left (or the interpreter stopped) before
          te + d never fires;
        * after exit/stop no timer of that activation is pending.
"""
from __future__ import annotations

from typing import Any, Dict, List, Optional, Tuple

from vf import env, model, vloop, vthread
from vf.kf import gate, verdict
from vf.logic import make_logic
from harness import common
from harness.common import pick

PROPERTY = "C08"
P: Dict[str, Any] = {}
EXPLAIN: List[str] = []
EXPLANATION = (
    "C08 (after timers): CrossHair executes _schedule_state_tasks/_resolve_delay/_after_timer/_cancel_state_tasks, the "
    "timer task / timer thread bodies, send() and stop() of both engines on a timer machine under a virtual clock; "
    "delays, slow-action duration, the instants and kinds of two external stimuli and the guard are symbolic, so z3 "
    "decides every before/same-instant/after ordering of deadlines and events."
)
NONTRIVIAL_RULE = "had at least one timer armed and one stimulus or expiry processed"
BOUNDS = {
    "after_schedule": "machine TM; delays d1,d2 in [0,40] ms, slow action a in [0,40] ms, stimuli at t1<=t2 in [0,60] ms of kind in {LEAVE,RE,NOP,BACK,STOP,BAD (an aborted, rolled-back transition between children of S), NRE / NLB (batches: slow action, then leave + re-enter)} (first kind fixed per item; async: both kinds fixed per item), guard of the second timer symbolic; observation window 280 ms; both named delays grow by 3 ms per activation (computed delays are resolved at each entry); both engines",
}
ASSUMPTIONS = [
    "virtual time: VLoop (async) jumps to the next deadline when nothing is runnable; vthreading (sync) runs a timer thread's body atomically at its deadline, between harness calls or inside the slow action",
    "pre-emptive OS-thread interleavings inside send() and real scheduler latency are outside the model",
    "time arithmetic is over the reals (CrossHair models float as real)",
]
WALL_BUDGET = {"quick": 900.0, "thorough": 3300.0}

KINDS = ["LEAVE", "RE", "NOP", "BACK", "STOP", "BAD", "NRE", "NLB"]
# NRE / NLB: one batch send_events([...]) - a slow action first, then events that leave and re-enter S: an expiry notification
# produced during the slow action is queued BEHIND them and is stale when it is finally dequeued
BATCH = {"NRE": ["NOP", "RE"], "NLB": ["NOP", "LEAVE", "BACK"]}
CTL: Dict[str, Any] = {}
_M: Dict[str, Any] = {}
STEP = 3          # ms added to both named delays per activation of S: a computed delay must be re-resolved at every entry
HORIZON = 280     # ms: two stimuli (<= 60 ms) + up to three slow actions (<= 40 ms each) + the longest delay (40 ms), with room


def _note(m: str) -> None:
    EXPLAIN.append(m)


def _now() -> Any:
    return CTL["clock"]()


def _log(kind: str, what: str) -> None:
    CTL["log"].append((_now(), kind, what))


def _act(name: str) -> Any:
    def f(i: Any, c: Any, e: Any, a: Any) -> None:
        _log("act", name)

    return f


def _slow_sync(i: Any, c: Any, e: Any, a: Any) -> None:
    _log("act", "slow.begin")
    vthread.SCHED.advance_by(CTL["a"] / 1000.0)
    _log("act", "slow.end")


async def _slow_async(i: Any, c: Any, e: Any, a: Any) -> None:
    import asyncio

    _log("act", "slow.begin")
    await asyncio.sleep(CTL["a"] / 1000.0)
    _log("act", "slow.end")


def tm_config() -> Dict[str, Any]:
    return {
        "id": "m", "initial": "S",
        "states": {
            "S": {
                "entry": ["S.en"], "exit": ["S.ex"],
                "after": {
                    "D1": {"target": "T", "actions": ["fire1"]},
                    "D2": {"target": "U", "actions": ["fire2"], "guard": "gU"},
                },
                "on": {
                    "LEAVE": {"target": "O", "actions": ["slow"]},
                    "RE": {"target": "S", "reenter": True},
                    "NOP": {"actions": ["slow"]},
                },
                # BAD: a transition between children of S that names an action nobody implements - it aborts and is rolled
                # back; S itself is never left, so its timers must not notice
                "initial": "s1",
                "states": {"s1": {"on": {"BAD": {"target": "s2", "actions": ["zz_missing"]}}}, "s2": {}},
            },
            "O": {"entry": ["O.en"], "on": {"BACK": "S", "RE": "S"}},
            "T": {"entry": ["T.en"], "on": {"BACK": "S"}},
            "U": {"entry": ["U.en"], "on": {"BACK": "S"}},
        },
    }


def _machine(eng: int) -> Any:
    key = f"TM{eng}"
    m = _M.get(key)
    if m is None:
        from xstate_statemachine import create_machine

        env.install()
        acts = {n: _act(n) for n in ("S.en", "S.ex", "fire1", "fire2", "O.en", "T.en", "U.en")}

        def s_en(i: Any, c: Any, e: Any, a: Any) -> None:
            CTL["n_en"] = CTL.get("n_en", 0) + 1
            _log("act", "S.en")

        acts["S.en"] = s_en
        acts["slow"] = _slow_sync if eng == 0 else _slow_async
        logic = make_logic(actions=acts, guards={"gU": lambda c, e: bool(CTL["gU"])},
                           delays={"D1": lambda c, e: CTL["d1"] + STEP * (CTL.get("n_en", 1) - 1),
                                   "D2": lambda c, e: CTL["d2"] + STEP * (CTL.get("n_en", 1) - 1)})
        m = create_machine(tm_config(), logic=logic)
        env.pin_hashes(m)
        _M[key] = m
    return m


def set_params(p: Dict[str, Any]) -> None:
    global P
    P = p
    vthread.install()
    _machine(0)
    _machine(1)


def _run_sync(stim: List[Tuple[Any, str]], horizon: Any) -> Any:
    from xstate_statemachine import SyncInterpreter
    from xstate_statemachine.exceptions import ImplementationMissingError

    S = vthread.SCHED
    S.reset(0.0)
    CTL["clock"] = lambda: S.now
    it = SyncInterpreter(_machine(0))
    it.start()
    stopped_at = None
    for t, kind in stim:
        S.advance_to(t / 1000.0)
        if kind == "STOP":
            it.stop()
            stopped_at = S.now
            _log("stop", "stop")
        else:
            _log("send", kind)
            try:
                if kind in BATCH:
                    it.send_events(list(BATCH[kind]))
                else:
                    it.send(kind)
            except ImplementationMissingError:
                if kind != "BAD":
                    raise
    CTL["census"].append((S.now, len(S.live()), _armed(it)))
    S.advance_to(horizon / 1000.0)
    CTL["census"].append((S.now, len(S.live()), _armed(it)))
    pending = len(S.live()) if stopped_at is not None else None
    registry = len(it._after_events) if stopped_at is not None else None
    if stopped_at is None:
        it.stop()
    return it, stopped_at, (pending, registry)


def _run_async(stim: List[Tuple[Any, str]], horizon: Any) -> Any:
    import asyncio
    from xstate_statemachine import Interpreter

    lp = vloop.VLoop()
    CTL["clock"] = lambda: lp.time()
    it = Interpreter(_machine(1))
    box: Dict[str, Any] = {"stopped_at": None, "pending": None}

    async def go() -> None:
        await it.start()
        for t, kind in stim:
            dt = t / 1000.0 - lp.time()
            if dt > 0:
                await asyncio.sleep(dt)
            if kind == "STOP":
                await it.stop()
                box["stopped_at"] = lp.time()
                _log("stop", "stop")
            else:
                _log("send", kind)
                for one in BATCH.get(kind, [kind]):
                    await it.send(one)
        if box["stopped_at"] is None:
            await it._event_queue.join()
        CTL["census"].append((lp.time(), _live_timer_tasks(lp), _armed(it)))
        dt = horizon / 1000.0 - lp.time()
        if dt > 0:
            await asyncio.sleep(dt)
        CTL["census"].append((lp.time(), _live_timer_tasks(lp), _armed(it)))
        if box["stopped_at"] is not None:
            box["pending"] = sum(1 for ts in it.task_manager._tasks_by_owner.values() for t_ in ts if not t_.done())
        else:
            await it.stop()

    vloop.run(go(), lp)
    lp.close()
    return it, box["stopped_at"], (box["pending"], None)


def _armed(it: Any) -> int:
    """Timers that may legitimately be pending: those of the active states
    (S owns two), none once the interpreter is stopped."""
    if it.status != "running":
        return 0
    return sum(len(ts) for n in it._active_state_nodes for ts in n.after.values())


def _live_timer_tasks(lp: Any) -> int:
    return common.native(_live_timer_tasks_native, lp)


def _live_timer_tasks_native(lp: Any) -> int:
    import asyncio

    n = 0
    for t in asyncio.all_tasks(lp):
        co = t.get_coro()
        if not t.done() and getattr(co, "__name__", "") == "_after_timer_task":
            n += 1
    return n


def _check(log: List[Any], d1: Any, d2: Any, a: Any, gU: Any, stopped_at: Any, pend: Any) -> Optional[str]:
    """Oracle over the time-stamped log."""
    acts: List[Tuple[Any, float]] = []  # activations of S: [enter, exit or None]
    cur: Optional[List[Any]] = None
    fired_in: Dict[int, List[str]] = {}
    last_exit_idx: Optional[int] = None
    slow_spans: List[Tuple[Any, Any]] = []
    sb: Any = None
    for (t, kind, what) in log:
        if kind == "act" and what == "slow.begin":
            sb = t
        elif kind == "act" and what == "slow.end":
            slow_spans.append((sb, t))
            sb = None
        if kind == "act" and what == "S.en":
            cur = [t, None]
            acts.append(cur)  # type: ignore[arg-type]
        elif kind == "act" and what == "S.ex":
            if cur is None:
                return f"S exited at {t} without being active"
            cur[1] = t
            last_exit_idx = len(acts) - 1
            cur = None
        elif kind == "act" and what in ("fire1", "fire2"):
            # transition actions run right after the source's exit actions
            if last_exit_idx is None or acts[last_exit_idx][1] != t:
                return f"{what} at {t} although S was not being left by it"
            te = acts[last_exit_idx][0]
            d = ((d1 if what == "fire1" else d2) + STEP * last_exit_idx) / 1000.0      # delays are computed at entry (see _machine)
            if t - te < d - 1e-9:
                return (f"{what} fired at {t * 1000:.3f} ms, only {(t - te) * 1000:.3f} ms after S was (re-)entered at {te * 1000:.3f} ms; "
                        f"its delay is {d * 1000:.3f} ms (a timer of an earlier activation?)")
            if what == "fire2" and not gU:
                return f"fire2 fired at {t} although its guard is false"
            fired_in.setdefault(last_exit_idx, []).append(what)
        if stopped_at is not None and t > stopped_at and kind == "act":
            return f"action {what} ran at {t} after stop() returned at {stopped_at}"
    if sb is not None:
        slow_spans.append((sb, 10 ** 9))  # a slow action that never finished (interpreter stopped meanwhile)
    for i, f in fired_in.items():
        if len(f) > 1:
            return f"activation #{i} of S fired {f}"
    # punctuality when nothing else occupies the interpreter
    for i, (te, tx) in enumerate(acts):
        for nm, dd, ok_guard in (("fire1", d1 / 1000.0, True), ("fire2", d2 / 1000.0, bool(gU))):
            if not ok_guard:
                continue
            dd = dd + STEP * i / 1000.0       # the i-th activation resolved its (computed) delays to base + STEP * i
            due = te + dd
            other = ("fire2", d2 / 1000.0) if nm == "fire1" else ("fire1", d1 / 1000.0)
            # is this the earlier (or only) enabled timer of the activation?
            if nm == "fire1" and gU and d2 < d1:
                continue
            if nm == "fire2" and d1 <= d2:
                continue
            still_active = tx is None or tx >= due - 1e-9
            if stopped_at is not None and stopped_at <= due:
                continue
            if due >= HORIZON / 1000.0 - 1e-9:
                continue        # beyond the observation window
            busy = any(b <= due <= e_ for b, e_ in slow_spans)
            if still_active and not busy:
                if not (i in fired_in and nm in fired_in[i] and tx is not None and abs(tx - due) < 1e-9):
                    if tx is None or tx > due + 1e-9:
                        return (f"activation #{i} of S (entered {te * 1000:.3f} ms) reached the deadline of {nm} at {due * 1000:.3f} ms "
                                f"with the interpreter idle, but it did not fire then (S left at {tx})")
    for (tc, live, armed) in CTL.get("census", []):
        if live > armed:
            return f"at {tc * 1000:.3f} ms {live} timer task(s)/thread(s) are pending but the active states own only {armed}"
    if stopped_at is not None and pend is not None:
        pending, registry = pend
        if pending:
            return f"{pending} timer(s) still pending after stop()"
        if registry:
            return f"{registry} cancel flag(s) still registered after stop()"
    return None


def after_schedule(d1: int, d2: int, a: int, t1: int, t2: int, k2: int, gU: bool) -> bool:
    """
    pre: 0 <= d1 <= 40 and 0 <= d2 <= 40 and 0 <= a <= 40
    pre: 0 <= t1 <= t2 <= 60
    pre: gate('after_schedule', d1=d1, d2=d2, a=a, t1=t1, t2=t2, k2=k2, gU=gU)
    post: _
    """
    eng = P["eng"]
    kind1 = P["k1"]
    kind2 = P["k2"] if "k2" in P else KINDS[pick(k2, len(KINDS))]
    if not P.get("two_timers", True):
        d2 = 1000  # second timer out of the observation window: one dimension less
    CTL.update({"d1": d1, "d2": d2, "a": a, "gU": gU, "log": [], "census": [], "n_en": 0})
    stim = [(t1, kind1), (t2, kind2)]
    if kind1 == "STOP":
        stim = [(t1, "STOP")]
    if eng == 0:
        it, stopped_at, pend = _run_sync(stim, HORIZON)
    else:
        it, stopped_at, pend = _run_async(stim, HORIZON)
    why = _check(CTL["log"], d1, d2, a, gU, stopped_at, pend)
    if why:
        _note(f"{'sync' if eng == 0 else 'async'} d1={d1} d2={d2} a={a} gU={bool(gU)} stimuli={stim}: {why}; log="
              + str([(round(float(t) * 1000, 3), w) for t, _k, w in CTL['log']]))
    return verdict(why is None)


def kf_stale_expiry(**kw: Any) -> bool:
    return False


OBLIGATIONS = {"after_schedule": after_schedule}
PROBES = {"after_schedule": [{"d1": 20, "d2": 5, "a": 0, "t1": 10, "t2": 12, "k2": 3, "gU": False},
                             {"d1": 20, "d2": 5, "a": 0, "t1": 10, "t2": 12, "k2": 0, "gU": False},
                             {"d1": 0, "d2": 7, "a": 0, "t1": 10, "t2": 12, "k2": 3},{"d1": 10, "d2": 40, "a": 30, "t1": 5, "t2": 5, "k2": 3},
                             {"d1": 1, "d2": 40, "a": 0, "t1": 1, "t2": 1, "k2": 1},
                             {"d1": 5, "d2": 3, "a": 0, "t1": 50, "t2": 60, "k2": 0, "gU": True}]}


def items(tier: str, seed: int) -> List[Dict[str, Any]]:
    quick = tier == "quick"
    out: List[Dict[str, Any]] = []
    for eng in (0, 1):
        for k1 in KINDS:
            if eng == 0 and k1 in BATCH:
                # the batch stimuli triple the schedule: one item per second stimulus
                for k2 in KINDS:
                    out.append({"ob": "after_schedule", "params": {"eng": eng, "k1": k1, "k2": k2}, "timeout": 400 if quick else 1500,
                                "path_timeout": 40, "label": f"after_schedule[sync,{k1},{k2}]"})
                continue
            if eng == 0:
                out.append({"ob": "after_schedule", "params": {"eng": eng, "k1": k1}, "timeout": 400 if quick else 1500,
                            "path_timeout": 40, "label": f"after_schedule[sync,first={k1}]"})
                continue
            for k2 in (KINDS if k1 != "STOP" else KINDS[:1]):
                two = (k1, k2) in (("LEAVE", "BACK"), ("RE", "RE"), ("STOP", "LEAVE"), ("BACK", "LEAVE")) or not quick
                out.append({"ob": "after_schedule", "params": {"eng": eng, "k1": k1, "k2": k2, "two_timers": two},
                            "timeout": 300 if quick else 1500, "path_timeout": 40,
                            "label": f"after_schedule[async,{k1},{k2},{'2 timers' if two else '1 timer'}]"})
    return out
