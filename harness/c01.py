"""C01 - the active configuration is a legal statechart configuration at every
observation point.

Obligations (each on SyncInterpreter and on Interpreter):
  base_start    start() establishes a legal configuration + history invariant
  step_node     inductive step: ONE transition with symbolic (source, target
                node, reenter) from an ARBITRARY publicly reachable
                (configuration, recorded history) pair preserves legality and
                the history invariant, also at every on_transition / subscriber
                observation point
  step_string   same, the target being an unconstrained symbolic *string*
                that one of the engine's four standard resolution attempts
                resolves (z3 explores one path per class of spellings the
                resolver distinguishes)
  step_unres    same, short strings over the skeleton's key alphabet that NO
                standard attempt resolves (engine fallbacks; realised per string)
  snapshot_legal  from_snapshot(get_snapshot()) of any such pre-state is legal
                and carries the same configuration/history
"""
from __future__ import annotations

from typing import Any, Dict, List, Optional

from vf import model, skeletons
from vf.kf import gate, verdict
from harness import common
from harness.common import Chooser, LazyHist, LegalityWatch, build_config, get_skel, pick

PROPERTY = "C01"
P: Dict[str, Any] = {}
EXPLAIN: List[str] = []
LAST: Dict[str, Any] = {}

EXPLANATION = (
    "C01 (legal configuration): CrossHair executes the real SyncInterpreter/Interpreter transition code "
    "(_execute_transition[_sync], resolvers, _find_transition_domain, _compute_states_to_exit, _exit_states, "
    "_record_history, _resolve_history_target, _enter_states) from a constructed pre-state; configuration "
    "choices, recorded history, source, target (node index or free string) and reenter are symbolic."
)
NONTRIVIAL_RULE = "executed a transition whose target resolved (the configuration could change)"
BOUNDS = {
    "descendant_smt": "BaseInterpreter._is_descendant (the subtree test behind exit sets, history records and doneness) on a fixed 7-node tree (depth 3) whose machine id and six state keys are non-empty strings of ANY length without '.', sibling keys distinct; all 49 (node, candidate ancestor) pairs; decided by executing the function's AST on z3 string terms (vf/ast2smt.py, z3 + cvc5), not by CrossHair. Dotted keys and custom ids are outside",
    "base_start": "every skeleton of the tier's family; engine in {sync, async}",
    "step_node": "skeleton fixed per item; every legal configuration (<=6 simultaneously active compound choices) with every recorded-history assignment reachable through the public API, every active source, every node as target, reenter in {T,F}, both engines",
    "step_string": "skeleton fixed per item; target = any str with 0 < len <= L (L in item label) resolved by a standard attempt; every configuration/history/reenter; source fixed per item",
    "step_unres": "skeleton fixed per item; target = str of <= maxlen chars over the skeleton's key alphabet + '.#' that no standard attempt resolves",
    "snapshot_legal": "skeleton fixed per item; every legal configuration + reachable history",
    "macro_step": "wired skeletons of C02 (every state handles E0-E3 with guarded candidates); every legal configuration; one event; guard outcomes symbolic (one variable per evaluated guard): whatever set of transitions the macrostep executes, every observation point sees a legal configuration",
    "step_abort": "skeleton fixed per item; as step_node (reenter False) plus: one state (symbolic) whose entry or exit list (symbolic) ends with an action nobody implements, so the transition aborts in the middle of its entry or exit phase; the configuration must be legal at every observation point and equal to the one before",
}
ASSUMPTIONS = [
    "pre-state of a step obligation is constructed directly (interp._active_state_nodes / _history): the configuration is an arbitrary legal one (symbolic choice per active compound state), the recorded history is one of the assignments that a native breadth-first exploration of public send() calls over a driver alphabet (SET:<child>, GOTO:<state>) reaches together with that configuration (harness/common.Reach); pre-states reachable only through transitions outside that alphabet are not covered",
    "the transition under test is a manufactured TransitionDefinition on an active source (any machine may declare it); violations are re-played through create_machine()+start()+send() with that transition declared in the config",
    "async engine coroutines run on the virtual-time loop vf/vloop.VLoop",
]
WALL_BUDGET = {"quick": 1200.0, "thorough": 3300.0}


SK: Any = None


def set_params(p: Dict[str, Any]) -> None:
    if p.get("wired"):
        global P
        from harness import c02

        P = p
        c02.set_params(p)
        return
    _set_params_sk(p)


def _set_params_sk(p: Dict[str, Any]) -> None:
    """Called natively (no tracing) before an item is analysed / replayed:
    builds the skeleton machine and its public reachability table once."""
    global P, SK
    P = p
    SK = get_skel(p)
    common.get_reach(SK)


def _sk() -> Any:
    return SK


def _note(msg: str) -> None:
    EXPLAIN.append(msg)


def _new_interp(sk: Any, eng: int) -> Any:
    from xstate_statemachine import Interpreter, SyncInterpreter

    it = (SyncInterpreter if eng == 0 else Interpreter)(sk.machine)
    it.status = "running"
    it.__dict__["_rec"] = []
    return it


def _run_transition(interp: Any, eng: int, tr: Any, ev: Any) -> Optional[str]:
    """Executes the real transition code. Library errors (XStateMachineError)
    are an allowed outcome; anything else escapes as a failing run."""
    from xstate_statemachine.exceptions import XStateMachineError

    try:
        if eng == 0:
            interp._execute_transition_sync(tr, ev)
        else:
            common.drive(interp._execute_transition(tr, ev))
    except XStateMachineError as e:
        return type(e).__name__
    return None


def _post_ok(interp: Any, sk: Any, watch: LegalityWatch) -> bool:
    r = model.legal_reason(list(interp._active_state_nodes), sk.machine)
    if r is not None:
        _note(f"after transition: {r}; active={sorted(n.id for n in interp._active_state_nodes)}")
        return False
    if watch.bad:
        _note("; ".join(watch.bad[:3]))
        return False
    h = common.history_invariant(interp)
    if h is not None:
        _note(h)
        return False
    return True


def _prestate(sk: Any, eng: int, cs: List[Any], hsel: Any) -> Any:
    """(interp, active, watch) or None when the chosen configuration is not
    publicly reachable."""
    reach = common.get_reach(sk)
    interp = _new_interp(sk, eng)
    active = build_config(sk.machine, Chooser(cs))
    ckey = tuple(sorted(n.id for n in active))
    variants = reach.by_config.get(ckey)
    LAST.clear()
    LAST.update({"eng": eng, "active": active, "interp": interp, "ckey": ckey})
    if variants is None:
        return None
    interp._active_state_nodes = set(active)
    interp._history = LazyHist(sk, variants, hsel)
    watch = LegalityWatch(sk.machine)
    interp.use(watch)
    interp.subscribe(watch.subscriber)
    return interp, active, watch


def _witness_seq(sk: Any) -> List[str]:
    reach = common.get_reach(sk)
    h = LAST["interp"]._history
    variants = reach.by_config.get(LAST["ckey"], [])
    k = h.chosen if isinstance(h, LazyHist) and h.chosen is not None else 0
    hkey = variants[k] if variants else ()
    return reach.witness[(LAST["ckey"], hkey)]


# ---------------------------------------------------------------------------
# known-finding predicates (see /verif/known_findings.json); evaluated inside
# gate() as part of the precondition, on the obligation's own arguments
# ---------------------------------------------------------------------------

def _node_for(tgt: Any) -> Any:
    sk = _sk()
    lo, hi = P.get("tgts", [0, len(sk.nodes)])
    return sk.nodes[lo + pick(tgt, hi - lo)]


def kf_history_parent_active_node(**a: Any) -> bool:
    """target is a history pseudo-state whose parent is a *parallel* state
    (the engine scopes the exit set to the 'region' containing the target,
    i.e. to nothing, and then enters the remembered states on top of the
    active ones)."""
    t = _node_for(a["tgt"])
    return t.type == "history" and t.parent is not None and t.parent.type == "parallel"


# ---------------------------------------------------------------------------
# obligations
# ---------------------------------------------------------------------------

def base_start(eng: int) -> bool:
    """
    pre: 0 <= eng <= 1
    pre: gate('base_start', eng=eng)
    post: _
    """
    from xstate_statemachine import Interpreter, SyncInterpreter

    sk = _sk()
    watch = LegalityWatch(sk.machine)
    if eng == 0:
        it = SyncInterpreter(sk.machine)
        it.use(watch)
        it.subscribe(watch.subscriber)
        it.start()
    else:
        it = Interpreter(sk.machine)
        it.use(watch)
        it.subscribe(watch.subscriber)

        async def go() -> None:
            await it.start()
            await it.stop()

        common.drive(go())
    return verdict(_post_ok(it, sk, watch))


def step_node(eng: int, c0: int, c1: int, c2: int, c3: int, c4: int, c5: int, hsel: int,
              srcsel: int, tgt: int, reenter: bool) -> bool:
    """
    pre: 0 <= eng <= 1
    pre: gate('step_node', eng=eng, c0=c0, c1=c1, c2=c2, c3=c3, c4=c4, c5=c5, hsel=hsel, srcsel=srcsel, tgt=tgt, reenter=reenter)
    post: _
    """
    from xstate_statemachine.events import Event
    from xstate_statemachine.models import TransitionDefinition

    sk = _sk()
    target = _node_for(tgt)
    pre = _prestate(sk, eng, [c0, c1, c2, c3, c4, c5], hsel)
    if pre is None:
        return verdict(True, nontrivial=False)
    interp, active, watch = pre
    src = active[pick(srcsel, len(active))]
    tr = TransitionDefinition("E", {"target": "#" + target.id, "reenter": True if reenter else False}, source=src)
    LAST.update({"src": src.id, "target": "#" + target.id, "reenter": bool(reenter)})
    err = _run_transition(interp, eng, tr, Event("E"))
    return verdict(_post_ok(interp, sk, watch), nontrivial=err is None)


def step_abort(eng: int, c0: int, c1: int, c2: int, c3: int, c4: int, c5: int, hsel: int,
               srcsel: int, tgt: int, bad: int, where: int) -> bool:
    """
    pre: 0 <= eng <= 1
    pre: gate('step_abort', eng=eng, c0=c0, c1=c1, c2=c2, c3=c3, c4=c4, c5=c5, hsel=hsel, srcsel=srcsel, tgt=tgt, bad=bad, where=where)
    post: _
    """
    from xstate_statemachine.events import Event
    from xstate_statemachine.models import ActionDefinition, TransitionDefinition

    sk = _sk()
    target = _node_for(tgt)
    pre = _prestate(sk, eng, [c0, c1, c2, c3, c4, c5], hsel)
    if pre is None:
        return verdict(True, nontrivial=False)
    interp, active, watch = pre
    src = active[pick(srcsel, len(active))]
    real = [n for n in sk.nodes if n.type != "history"]
    victim = real[pick(bad, len(real))]
    attr = "entry" if (P["where"] if "where" in P else pick(where, 2)) == 0 else "exit"
    saved = list(getattr(victim, attr))
    before = sorted(n.id for n in active)
    # the victim's entry (or exit) list gets an action nobody implements, placed AFTER its marker: the abort strikes in the
    # middle of the entry (exit) phase, when other states have already been entered (exited)
    setattr(victim, attr, saved + [ActionDefinition("c01_not_implemented")])
    try:
        tr = TransitionDefinition("E", {"target": "#" + target.id, "reenter": False}, source=src)
        LAST.update({"src": src.id, "target": "#" + target.id, "reenter": False, "victim": victim.id, "attr": attr})
        err = _run_transition(interp, eng, tr, Event("E"))
    finally:
        setattr(victim, attr, saved)
    ok = _post_ok(interp, sk, watch)
    if ok and err is not None:
        after = sorted(n.id for n in interp._active_state_nodes)
        if after != before:
            _note(f"transition {src.id} -> #{target.id} aborted with {err} ({attr} of {victim.id} not implemented) but the configuration "
                  f"changed: {before} -> {after}")
            ok = False
    return verdict(ok, nontrivial=err is not None)


def macro_step(c0: int, c1: int, c2: int, c3: int, c4: int, c5: int, tri: int, b0: bool, b1: bool, b2: bool, b3: bool,
               b4: bool, b5: bool, b6: bool, b7: bool) -> bool:
    """
    pre: gate('macro_step', c0=c0, c1=c1, c2=c2, c3=c3, c4=c4, c5=c5)
    post: _
    """
    from xstate_statemachine import Interpreter, SyncInterpreter
    from xstate_statemachine.events import Event
    from xstate_statemachine.exceptions import XStateMachineError

    from harness import c02

    w = c02.W
    eng = P["eng"]
    active = build_config(w.machine, Chooser([c0, c1, c2, c3, c4, c5]))
    c02.GV["fn"] = c02._guard_val([b0, b1, b2, b3, b4, b5, b6, b7], tri)
    del c02.GCALLS[:]
    it = (SyncInterpreter if eng == 0 else Interpreter)(w.machine)
    it.status = "running"
    it.__dict__["_rec"] = []
    it._active_state_nodes = set(active)
    watch = LegalityWatch(w.machine)
    it.use(watch)
    it.subscribe(watch.subscriber)
    ev = Event(P["event"])
    try:
        if eng == 0:
            it.send(ev)
        else:
            async def go() -> None:
                import asyncio

                it._event_loop_task = asyncio.ensure_future(it._run_event_loop())
                await it.send(ev)
                await it._event_queue.join()
                it._event_loop_task.cancel()
                try:
                    await it._event_loop_task
                except BaseException:  # noqa: BLE001
                    pass

            common.drive(go())
    except XStateMachineError:
        pass
    r = model.legal_reason(list(it._active_state_nodes), w.machine)
    why = None
    if r is not None:
        why = f"after the macrostep: {r}; active={sorted(n.id for n in it._active_state_nodes)}"
    elif watch.bad:
        why = "; ".join(watch.bad[:3])
    if why:
        _note(f"{'sync' if eng == 0 else 'async'} event {P['event']} from {sorted(n.id for n in active)} (several regions may each select a transition): {why}")
    fired = [x for x in it.__dict__["_rec"] if x[0] == "tr"]
    return verdict(why is None, nontrivial=len(fired) >= 1)


def _resolvable(tgt: str, src: Any, machine: Any) -> bool:
    """True iff one of the engines' four standard resolution attempts
    succeeds (the precondition calls the REAL resolver)."""
    from xstate_statemachine.exceptions import StateNotFoundError
    from xstate_statemachine.resolver import resolve_target_state

    attempts = [(tgt, src)]
    if src.parent is not None:
        attempts.append((tgt, src.parent))
    attempts.append((tgt, machine))
    attempts.append((machine.id + "." + tgt, machine))
    for t, ref in attempts:
        try:
            resolve_target_state(t, ref)
            return True
        except StateNotFoundError:
            continue
    return False


def step_string(eng: int, c0: int, c1: int, c2: int, c3: int, c4: int, c5: int, hsel: int,
                srcsel: int, tgt: str, reenter: bool) -> bool:
    """
    pre: 0 <= eng <= 1
    pre: 0 < len(tgt) <= P['maxlen']
    pre: gate('step_string', eng=eng, c0=c0, c1=c1, c2=c2, c3=c3, c4=c4, c5=c5, hsel=hsel, srcsel=srcsel, tgt=tgt, reenter=reenter)
    post: _
    """
    from xstate_statemachine.events import Event
    from xstate_statemachine.models import TransitionDefinition

    sk = _sk()
    pre = _prestate(sk, eng, [c0, c1, c2, c3, c4, c5], hsel)
    if pre is None:
        return verdict(True, nontrivial=False)
    interp, active, watch = pre
    if "src" in P:
        src = sk.nodes[P["src"]]
        if not any(a is src for a in active):
            return verdict(True, nontrivial=False)
    else:
        src = active[pick(srcsel, len(active))]
    if not _resolvable(tgt, src, sk.machine):
        # unresolvable spellings are the subject of step_unres
        return verdict(True, nontrivial=False)
    tr = TransitionDefinition("E", {"target": tgt, "reenter": True if reenter else False}, source=src)
    LAST.update({"src": src.id, "target": tgt, "reenter": bool(reenter)})
    err = _run_transition(interp, eng, tr, Event("E"))
    return verdict(_post_ok(interp, sk, watch), nontrivial=err is None)


def _alphabet_ok(tgt: str) -> bool:
    alpha = P["alphabet"]
    for ch in tgt:
        if ch not in alpha:
            return False
    return True


def step_unres(eng: int, c0: int, c1: int, c2: int, c3: int, srcsel: int, tgt: str, reenter: bool) -> bool:
    """
    pre: 0 <= eng <= 1
    pre: 0 < len(tgt) <= P['maxlen']
    pre: _alphabet_ok(tgt)
    pre: gate('step_unres', eng=eng, c0=c0, c1=c1, c2=c2, c3=c3, srcsel=srcsel, tgt=tgt, reenter=reenter)
    post: _
    """
    from xstate_statemachine.events import Event
    from xstate_statemachine.models import TransitionDefinition

    sk = _sk()
    pre = _prestate(sk, eng, [c0, c1, c2, c3], 0)
    if pre is None:
        return verdict(True, nontrivial=False)
    interp, active, watch = pre
    src = active[pick(srcsel, len(active))]
    if _resolvable(tgt, src, sk.machine):
        return verdict(True, nontrivial=False)
    tr = TransitionDefinition("E", {"target": tgt, "reenter": True if reenter else False}, source=src)
    LAST.update({"src": src.id, "target": tgt, "reenter": bool(reenter)})
    _run_transition(interp, eng, tr, Event("E"))
    return verdict(_post_ok(interp, sk, watch), nontrivial=True)


def snapshot_legal(eng: int, c0: int, c1: int, c2: int, c3: int, c4: int, c5: int, hsel: int) -> bool:
    """
    pre: 0 <= eng <= 1
    pre: gate('snapshot_legal', eng=eng)
    post: _
    """
    return snapshot_body(eng, c0, c1, c2, c3, c4, c5, hsel)


def snapshot_body(eng: Any, c0: Any, c1: Any, c2: Any, c3: Any, c4: Any, c5: Any, hsel: Any) -> bool:
    from xstate_statemachine import Interpreter, SyncInterpreter

    sk = _sk()
    pre = _prestate(sk, eng, [c0, c1, c2, c3, c4, c5], hsel)
    if pre is None:
        return verdict(True, nontrivial=False)
    interp, active, watch = pre
    snap = interp.get_persisted_snapshot()
    r = model.legal_ids(snap["configuration"], sk.machine)
    if r is not None:
        _note(f"snapshot configuration: {r}")
        return verdict(False)
    cls = SyncInterpreter if eng == 0 else Interpreter
    restored = cls.from_snapshot(interp.get_snapshot(), sk.machine)
    r = model.legal_reason(list(restored._active_state_nodes), sk.machine)
    if r is not None:
        _note(f"restored: {r}")
        return verdict(False)
    if sorted(n.id for n in restored._active_state_nodes) != sorted(n.id for n in active):
        _note("restored configuration differs from the one snapshotted")
        return verdict(False)
    h = common.history_invariant(restored)
    if h is not None:
        _note("restored: " + h)
        return verdict(False)
    want = {k: sorted(n.id for n in v) for k, v in dict.items(interp._history)}
    got = {k: sorted(n.id for n in v) for k, v in dict.items(restored._history)}
    if want != got:
        _note(f"restored history {got} != {want}")
        return verdict(False)
    return verdict(True)


def _public_step(**_args: Any) -> Any:
    """Second opinion through the public API only (native replay)."""
    sk = _sk()
    if "src" not in LAST:
        return ("holds", "obligation returned before executing a transition")
    return common.public_witness(
        sk, LAST["eng"], _witness_seq(sk),
        {"src": LAST["src"], "target": LAST["target"], "reenter": LAST["reenter"]},
    )


PUBLIC_REPLAY = {"step_node": _public_step, "step_string": _public_step, "step_unres": _public_step}

# ---------------------------------------------------------------------------
# the subtree test every exit set / history record / doneness test rests on,
# for state keys of ANY length: AST -> SMT (vf/ast2smt.py), no CrossHair
# ---------------------------------------------------------------------------

# fixed 7-node shape; the keys (and the machine id) are the symbolic part
DESC_PARENT = [None, 0, 0, 1, 1, 2, 3]          # n0 root; n1, n2 its children; n3, n4 below n1; n5 below n2; n6 below n3
DESC_KEY = [None, "k1", "k2", "k3", "k4", "k5", "k6"]


def _desc_is_anc(a: int, n: int) -> bool:
    while n is not None:
        if n == a:
            return True
        n = DESC_PARENT[n]      # type: ignore[assignment]
    return False


def descendant_smt(mid: str, k1: str, k2: str, k3: str, k4: str, k5: str, k6: str, i: int, j: int) -> bool:
    """Native body (replay of a solver model): builds the real machine with these keys and asks the real
    BaseInterpreter._is_descendant about the node pair (i, j).  The deciding run is ``_smt_descendant``.

    post: _
    """
    from xstate_statemachine import create_machine
    from xstate_statemachine.base_interpreter import BaseInterpreter

    keys = {"k1": k1, "k2": k2, "k3": k3, "k4": k4, "k5": k5, "k6": k6}
    if any((not v) or "." in v for v in list(keys.values()) + [mid]) or k1 == k2 or k3 == k4:
        return verdict(True, nontrivial=False)
    cfg = {"id": mid, "initial": k1, "states": {
        k1: {"initial": k3, "states": {k3: {"initial": k6, "states": {k6: {}}}, k4: {}}},
        k2: {"initial": k5, "states": {k5: {}}}}}
    m = create_machine(cfg)
    nodes = [m, m.states[k1], m.states[k2], m.states[k1].states[k3], m.states[k1].states[k4], m.states[k2].states[k5],
             m.states[k1].states[k3].states[k6]]
    got = bool(BaseInterpreter._is_descendant(nodes[i], nodes[j]))
    want = _desc_is_anc(j, i)
    if got != want:
        _note(f"_is_descendant({nodes[i].id!r}, {nodes[j].id!r}) = {got}, but in the tree the second is {'an' if want else 'NOT an'} ancestor-or-self of the first")
    return verdict(got == want)


def _smt_descendant(fn: Any, timeout: float = 60.0, per_path_timeout: float = 20.0) -> Dict[str, Any]:
    import time as _t

    import z3

    from vf import ast2smt, kf
    from xstate_statemachine.base_interpreter import BaseInterpreter

    t0 = _t.perf_counter()
    mid = z3.String("mid")
    ks = {k: z3.String(k) for k in DESC_KEY[1:]}
    dot = z3.StringVal(".")
    assumptions = [z3.Length(v) > 0 for v in list(ks.values()) + [mid]] + [z3.Not(z3.Contains(v, dot)) for v in list(ks.values()) + [mid]]
    assumptions += [ks["k1"] != ks["k2"], ks["k3"] != ks["k4"]]
    ids: List[Any] = [mid]
    for n in range(1, 7):
        ids.append(z3.Concat(ids[DESC_PARENT[n]], dot, ks[DESC_KEY[n]]))
    nodes = [ast2smt.SymObj(f"n{n}", id=ids[n]) for n in range(7)]
    names = ["mid"] + DESC_KEY[1:]
    tot = {"paths": 0, "z3_queries": 0, "solver_s": 0.0, "cvc5": 0}
    twin = kf.TWIN
    res: Dict[str, Any] = {"obligation": "descendant_smt", "verdict": "confirmed", "cex": None, "message": ""}
    for i in range(7):
        for j in range(7):
            want = _desc_is_anc(j, i)

            def on_return(ex: Any, value: Any, want: bool = want) -> Any:
                if twin:
                    r, mdl = ex.check()
                    return mdl if r == "sat" else None
                if isinstance(value, bool):
                    bad: Any = z3.BoolVal(value != want)
                elif z3.is_bool(value):
                    bad = value != z3.BoolVal(want)
                else:
                    raise ast2smt.Unsupported("return value is not a truth value")
                printable = [z3.InRe(v, z3.Star(z3.Range("!", "~"))) for v in list(ks.values()) + [mid]]
                r, mdl = ex.check(bad, *printable)
                if r == "sat":
                    return mdl
                r, mdl = ex.check(bad)
                if r == "unknown":
                    raise ast2smt.Unsupported("both solvers answered unknown on the property query")
                return mdl if r == "sat" else None

            out = ast2smt.explore(BaseInterpreter._is_descendant, lambda i=i, j=j: {"node": nodes[i], "ancestor": nodes[j]}, assumptions,
                                  on_return, max(5.0, timeout - (_t.perf_counter() - t0)), names=names)
            tot["paths"] += out["paths"]
            tot["z3_queries"] += out["z3_queries"]
            tot["solver_s"] += out["solver_s"]
            tot["cvc5"] += out.get("cvc5_queries", 0)
            if out["verdict"] == "refuted":
                mdl = out["model"]
                cex = {nm: ast2smt.model_str(mdl, (mid if nm == "mid" else ks[nm])) for nm in names}
                cex.update({"i": i, "j": j})
                res.update({"verdict": "refuted", "cex": cex})
                break
            if out["verdict"] != "confirmed":
                res.update({"verdict": "unknown", "message": out["message"]})
                break
        if res["verdict"] != "confirmed":
            break
    res.update({"paths": tot["paths"], "z3_queries": tot["z3_queries"], "solver_s": round(tot["solver_s"], 3), "wall_s": round(_t.perf_counter() - t0, 3)})
    if not res["message"]:
        res["message"] = (f"AST->SMT of _is_descendant on a 7-node tree with symbolic keys of any length: 49 node pairs, {tot['paths']} paths; "
                          f"{tot['cvc5']} queries went to cvc5 after z3 answered unknown")
    kf.HITS["oracle"] += max(1, tot["paths"])
    kf.HITS["nontrivial"] += max(1, tot["paths"])
    return res


descendant_smt.smt_runner = _smt_descendant  # type: ignore[attr-defined]

OBLIGATIONS = {
    "descendant_smt": descendant_smt,
    "base_start": base_start,
    "step_node": step_node,
    "step_string": step_string,
    "step_unres": step_unres,
    "snapshot_legal": snapshot_legal,
    "step_abort": step_abort,
    "macro_step": macro_step,
}


# ---------------------------------------------------------------------------
# work items
# ---------------------------------------------------------------------------

def _family(tier: str, seed: int) -> List[Any]:
    if tier == "quick":
        return skeletons.gen(4, 3, limit=24, seed=seed)
    return skeletons.gen(5, 3, limit=60, seed=seed)


def _alphabet(spec: Any) -> str:
    cfg = skeletons.machine_config(spec)
    keys = set("m")

    def walk(c: Dict[str, Any]) -> None:
        for k, v in c.get("states", {}).items():
            for chx in k:
                keys.add(chx)
            walk(v)

    walk(cfg)
    return "".join(sorted(keys | {".", "#"}))


def _has_parallel_history(params: Dict[str, Any]) -> bool:
    def walk(spec: Any, parent_kind: str) -> bool:
        kind, kids = spec[0], spec[1]
        if kind in ("hs", "hd"):
            return parent_kind == "p"
        return any(walk(v, kind) for k, v in kids if not (isinstance(k, str) and k.startswith("__")))

    return walk(params.get("spec") or skeletons.CURATED[params["sid"]], "")


def items(tier: str, seed: int) -> List[Dict[str, Any]]:
    out: List[Dict[str, Any]] = []
    quick = tier == "quick"
    fam = _family(tier, seed)
    cur = [(k, v) for k, v in skeletons.CURATED.items() if not (quick and k == "CUR17")]   # CUR17 (20 nodes): thorough tier only here; C11 runs it in both tiers
    for sid, spec in cur + fam:
        out.append({"ob": "base_start", "params": {"sid": sid, "spec": spec}, "timeout": 30, "label": f"base_start[{sid}]"})
    for sid, spec in cur:
        n = _count_nodes(spec)
        for t in range(n):
            out.append({"ob": "step_node", "params": {"sid": sid, "spec": spec, "tgts": [t, t + 1]},
                        "timeout": 200 if quick else 500, "label": f"step_node[{sid},tgt={t}]"})
    for sid, spec in fam:
        out.append({"ob": "step_node", "params": {"sid": sid, "spec": spec}, "timeout": 150 if quick else 300,
                    "label": f"step_node[{sid}]"})
    abort_skels = ("CUR2", "CUR4", "CUR10") if quick else ("CUR2", "CUR4", "CUR5", "CUR10", "CUR16")
    for sid, spec in [(k, v) for k, v in cur if k in abort_skels]:
        n = _count_nodes(spec)
        for t in range(n):
            for wh in (0, 1):
                out.append({"ob": "step_abort", "params": {"sid": sid, "spec": spec, "tgts": [t, t + 1], "where": wh},
                            "timeout": 450 if quick else 900, "label": f"step_abort[{sid},tgt={t},{'entry' if wh == 0 else 'exit'}]"})
    str_skels = ["CUR2", "CUR4", "CUR8", "CUR9"] if quick else ["CUR2", "CUR4", "CUR8", "CUR9", "CUR15", "CUR5"]
    for sid in str_skels:
        spec = skeletons.CURATED[sid]
        n = _count_nodes(spec)
        srcs = _spread(n)
        for s in srcs:
            # '#alpha' / '#beta' custom ids of CUR8 need 5-6 characters
            L = (5 if sid == "CUR8" else 4) if quick else (6 if sid == "CUR8" else 5)
            if s == 0 and not quick:
                L -= 1  # the root as source resolves the most spellings
            out.append({"ob": "step_string", "params": {"sid": sid, "spec": spec, "maxlen": L, "src": s},
                        "timeout": 400 if quick else 700, "path_timeout": 30, "label": f"step_string[{sid},src={s},L={L}]"})
    for sid in ([] if quick else ["CUR1", "CUR2", "CUR8", "CUR9"]):
        spec = skeletons.CURATED[sid]
        out.append({"ob": "step_unres", "params": {"sid": sid, "spec": spec, "maxlen": 2 if quick else 3, "alphabet": _alphabet(spec)},
                    "timeout": 240 if quick else 900, "label": f"step_unres[{sid}]"})
    # whole macrosteps (several regions select a transition for one event) on the wired skeletons of C02
    for sid in (("CUR3", "CUR7", "CUR11") if quick else ("CUR3", "CUR4", "CUR6", "CUR7", "CUR10", "CUR11", "CUR13")):
        for ev in ("E0", "E2", "E4") if quick else ("E0", "E1", "E2", "E3", "E4"):
            for eng in (0, 1):
                if quick and eng == 1 and sid == "CUR7" and ev == "E0":
                    continue    # 3840 paths at 0.12 s since the wiring grew (E5/E6): thorough tier only; the sync twin stays in quick
                out.append({"ob": "macro_step", "params": {"sid": sid, "spec": skeletons.CURATED[sid], "eng": eng, "event": ev, "wired": True},
                            "timeout": 400 if quick else 1200, "label": f"macro_step[{sid},{ev},{'sync' if eng == 0 else 'async'}]"})
    out.append({"ob": "descendant_smt", "params": {"sid": "CUR1", "spec": skeletons.CURATED["CUR1"]}, "timeout": 300, "label": "descendant_smt[7-node tree, keys of any length]"})
    for sid, spec in cur + fam[: (10 if quick else 40)]:
        out.append({"ob": "snapshot_legal", "params": {"sid": sid, "spec": spec}, "timeout": 60, "label": f"snapshot_legal[{sid}]"})
    return out


def _spread(n: int) -> List[int]:
    return sorted({0, n // 2, n - 1})


def _count_nodes(spec: Any) -> int:
    kind, kids = spec[0], spec[1]
    if kind in ("hs", "hd"):
        return 1
    return 1 + sum(_count_nodes(v) for k, v in kids if not (isinstance(k, str) and k.startswith("__")))
