"""Shared harness plumbing: skeleton cache, symbolic pickers, constructive
pre-states (arbitrary legal configuration + *reachable* recorded history),
engine drivers, public-API witnesses.
"""
from __future__ import annotations

import copy
import json
from typing import Any, Callable, Dict, List, Optional, Sequence, Tuple

from vf import env, model, skeletons
from vf.logic import make_logic

_SKELS: Dict[str, Any] = {}


def get_skel(params: Dict[str, Any], logic_factory: Optional[Callable[[], Any]] = None,
             extra: Optional[Dict[str, Any]] = None, tag: str = "") -> Any:
    """Builds (once per process) the skeleton named by params['sid'] /
    params['spec']."""
    sid = params["sid"]
    spec = params.get("spec") or skeletons.CURATED[sid]
    key = tag + sid + json.dumps(spec, sort_keys=True, default=str)
    sk = _SKELS.get(key)
    if sk is None:
        logic = logic_factory() if logic_factory else make_logic()
        sk = skeletons.Skel(sid, _detuple(spec), logic=logic, extra=extra)
        _SKELS[key] = sk
    return sk


def _detuple(spec: Any) -> Any:
    kind, kids = spec[0], spec[1]
    out = []
    for k, v in kids:
        if isinstance(k, str) and k.startswith("__"):
            out.append((k, v))
        else:
            out.append((k, _detuple(v)))
    return (kind, out)


def mark(cfg: Dict[str, Any]) -> Dict[str, Any]:
    """Adds marker entry/exit actions ('en'/'ex' with the state id) to every
    non-history state of a config (in place; existing entry/exit lists are
    kept, the marker goes first)."""

    def walk(c: Dict[str, Any], path: str) -> None:
        if c.get("type") == "history":
            return
        for key, act in (("entry", "en"), ("exit", "ex")):
            cur = c.get(key)
            cur = [] if cur is None else (cur if isinstance(cur, list) else [cur])
            c[key] = [{"type": act, "params": {"s": path}}] + cur
        for k, v in c.get("states", {}).items():
            walk(v, f"{path}.{k}")

    walk(cfg, cfg["id"])
    return cfg


def native(fn: Callable[..., Any], *a: Any, **k: Any) -> Any:
    """Runs ``fn`` with CrossHair's tracing switched off. Only for sections
    whose inputs have all been made concrete by earlier forks (CrossHair's
    pure-Python json and copy are pathologically slow on concrete data); sound
    precisely because no symbolic value enters them."""
    try:
        from crosshair.tracers import NoTracing, is_tracing  # type: ignore
    except Exception:  # pragma: no cover
        return fn(*a, **k)
    if is_tracing():
        with NoTracing():
            return fn(*a, **k)
    return fn(*a, **k)


def pick(sym: Any, n: int) -> int:
    """Concrete int in [0, n) obtained by forking on a symbolic int. Values
    outside the range collapse onto n-1 (one path), so no precondition is
    needed and no path is wasted."""
    for i in range(n - 1):
        if sym == i:
            return i
    return n - 1


class Chooser:
    """Hands out symbolic choice variables in encounter order (the i-th
    compound met while walking the configuration uses the i-th variable)."""

    def __init__(self, vars_: Sequence[Any]) -> None:
        self.vars = list(vars_)
        self.i = 0

    def choose(self, n: int) -> int:
        if n <= 1:
            return 0
        v = self.vars[self.i % len(self.vars)]
        self.i += 1
        return pick(v, n)


def build_config(root: Any, ch: Chooser) -> List[Any]:
    """An arbitrary legal (sub-)configuration below ``root`` (inclusive), in
    document order, selected by the chooser. Legal by construction."""
    out: List[Any] = []

    def walk(n: Any) -> None:
        out.append(n)
        if n.type == "compound":
            kids = model.real_children(n)
            if kids:
                walk(kids[ch.choose(len(kids))])
        elif n.type == "parallel":
            for c in model.real_children(n):
                walk(c)

    walk(root)
    return out


# ---------------------------------------------------------------------------
# reachable (configuration, history) pairs through the PUBLIC API
# ---------------------------------------------------------------------------

def driver_config(sk: Any, test: Optional[Dict[str, Any]] = None) -> Dict[str, Any]:
    """The skeleton's config plus a driver alphabet that makes every legal
    configuration reachable through ``send``:
      SET:<Y.id>   on every compound X, for each real child Y (target: key)
      GOTO:<L.id>  on the root, for every non-history state L (target '#id')
    plus optionally the transition under test as event ``TEST``."""
    cfg = copy.deepcopy(sk.cfg)
    root_on = cfg.setdefault("on", {})

    def walk(c: Dict[str, Any], path: str, dotted: bool) -> None:
        kids = c.get("states", {})
        if kids and c.get("type") != "parallel":
            on = c.setdefault("on", {})
            for k, v in kids.items():
                if v.get("type") != "history" and "." not in k:
                    on[f"SET:{path}.{k}"] = {"target": k}
        # '#a.b' cannot address a state below a key that itself contains '.'
        if path != cfg["id"] and c.get("type") != "history" and not dotted:
            root_on[f"GOTO:{path}"] = {"target": "#" + path}
        if test is not None and path == test["src"]:
            c.setdefault("on", {})["TEST"] = {"target": test["target"], "reenter": bool(test["reenter"])}
        for k, v in kids.items():
            walk(v, f"{path}.{k}", dotted or "." in k)

    walk(cfg, cfg["id"], False)
    return cfg


def _state_key(it: Any) -> Tuple[Any, Any]:
    return (
        tuple(sorted(n.id for n in it._active_state_nodes)),
        tuple(sorted((k, tuple(sorted(n.id for n in v))) for k, v in dict.items(it._history))),
    )


class Reach:
    """All (configuration, recorded history) pairs reachable from start() by
    public ``send`` calls over the driver alphabet, computed natively with the
    real SyncInterpreter (breadth first, so each pair carries a shortest
    witness sequence). ``by_config[config_key]`` lists the history variants."""

    def __init__(self, sk: Any, limit: int = 3000) -> None:
        from xstate_statemachine import SyncInterpreter, create_machine
        from xstate_statemachine.exceptions import XStateMachineError

        self.sk = sk
        cfg = driver_config(sk)
        self.machine = create_machine(cfg, logic=make_logic())
        env.pin_hashes(self.machine)
        by_id = {n.id: n for n in model.doc_order(self.machine)}
        events: List[str] = []
        for n in by_id.values():
            for k in n.on:
                if k.startswith(("SET:", "GOTO:")):
                    events.append(k)
        self.events = events
        self.hist_errors: List[str] = []
        hist_parent_ids = [n.id for n in by_id.values() if any(c.type == "history" for c in n.states.values())]
        it = SyncInterpreter(self.machine).start()
        k0 = _state_key(it)
        self.witness: Dict[Any, List[str]] = {k0: []}
        self.illegal: Dict[Any, str] = {}
        r0 = model.legal_reason(list(it._active_state_nodes), self.machine)
        if r0:
            self.illegal[k0] = r0
        frontier = [k0]
        while frontier and len(self.witness) < limit:
            nxt = []
            for key in frontier:
                if key in self.illegal:
                    continue
                for e in events:
                    it = SyncInterpreter(self.machine)
                    it.status = "running"
                    it._active_state_nodes = {by_id[i] for i in key[0]}
                    it._history = {p: [by_id[i] for i in ids] for p, ids in key[1]}
                    try:
                        it.send(e)
                    except XStateMachineError:
                        pass
                    k2 = _state_key(it)
                    # the engine's record for a history parent that this step exited must be
                    # exactly what was active below it (checked on every explored edge)
                    for pid in hist_parent_ids:
                        if pid in key[0] and pid not in k2[0]:
                            want = sorted(i for i in key[0] if i != pid and model.is_desc(by_id[i], by_id[pid]))
                            got = sorted(n.id for n in (it._history.get(pid) or []))
                            if got != want and len(self.hist_errors) < 5:
                                self.hist_errors.append(
                                    f"start(); send{self.witness[key] + [e]}: history recorded for {pid} is {got}, "
                                    f"active below it when it was exited: {want}")
                    if k2 in self.witness:
                        continue
                    self.witness[k2] = self.witness[key] + [e]
                    r = model.legal_reason(list(it._active_state_nodes), self.machine)
                    if r:
                        self.illegal[k2] = r
                    nxt.append(k2)
            frontier = nxt
        self.by_config: Dict[Any, List[Any]] = {}
        for key in self.witness:
            self.by_config.setdefault(key[0], []).append(key[1])
        for v in self.by_config.values():
            v.sort()


_REACH: Dict[int, Reach] = {}


def get_reach(sk: Any) -> Reach:
    r = _REACH.get(id(sk))
    if r is None:
        from crosshair.tracers import NoTracing, is_tracing  # type: ignore

        if is_tracing():
            with NoTracing():
                r = Reach(sk)
        else:
            r = Reach(sk)
        _REACH[id(sk)] = r
    return r


class LazyHist(dict):
    """``interp._history`` decided lazily (only when the engine first reads or
    writes it): one of the history assignments that the public API can reach
    together with the chosen configuration (see Reach), selected by a symbolic
    index. Representation invariant = reachability, so an inductive step from
    these pre-states needs no further confirmation."""

    def __init__(self, sk: Any, variants: List[Any], sel: Any) -> None:
        super().__init__()
        self._sk = sk
        self._variants = variants
        self._sel = sel
        self._done = False
        self._written: set = set()
        self.chosen: Optional[int] = None

    def _decide(self) -> None:
        if self._done:
            return
        self._done = True
        if not self._variants:
            return
        k = pick(self._sel, len(self._variants))
        self.chosen = k
        by_id = self._sk.index
        for pid, ids in self._variants[k]:
            if pid not in self._written:
                dict.__setitem__(self, pid, [self._sk.nodes[by_id[i]] for i in ids])

    def get(self, key: Any, default: Any = None) -> Any:
        self._decide()
        return dict.get(self, key, default)

    def __getitem__(self, key: Any) -> Any:
        self._decide()
        return dict.__getitem__(self, key)

    def __contains__(self, key: Any) -> bool:
        self._decide()
        return dict.__contains__(self, key)

    def __setitem__(self, key: Any, value: Any) -> None:
        # a write does not depend on the old value: stay undecided
        self._written.add(key)
        dict.__setitem__(self, key, value)

    def pop(self, *a: Any) -> Any:  # type: ignore[override]
        self._decide()
        return dict.pop(self, *a)

    def setdefault(self, *a: Any) -> Any:  # type: ignore[override]
        self._decide()
        return dict.setdefault(self, *a)

    def items(self) -> Any:  # type: ignore[override]
        self._decide()
        return dict.items(self)

    def keys(self) -> Any:  # type: ignore[override]
        self._decide()
        return dict.keys(self)

    def values(self) -> Any:  # type: ignore[override]
        self._decide()
        return dict.values(self)

    def __iter__(self) -> Any:
        self._decide()
        return dict.__iter__(self)

    def __len__(self) -> int:
        self._decide()
        return dict.__len__(self)

    def __bool__(self) -> bool:
        self._decide()
        return dict.__len__(self) > 0


def history_invariant(interp: Any) -> Optional[str]:
    """Every recorded history value is the non-root part of a legal
    sub-configuration below its parent."""
    by_id = {n.id: n for n in model.doc_order(interp.machine)}
    h = interp._history
    # (an undecided LazyHist holds only the entries written during the step;
    #  the unread pre-state entries satisfy the invariant by construction)
    for pid, nodes in dict.items(h):
        p = by_id.get(pid)
        if p is None:
            return f"history key {pid!r} is not a state of the machine"
        if not nodes:
            return f"history[{pid}] is empty"
        r = model.legal_reason([p] + list(nodes), interp.machine, root=p)
        if r is not None:
            return f"history[{pid}] not a legal sub-configuration: {r}"
        if len({id(n) for n in nodes}) != len(list(nodes)):
            return f"history[{pid}] has duplicates"
    return None


def drive(coro: Any) -> Any:
    """Runs an async-engine coroutine to completion on a fresh virtual-time
    event loop (no real clock, no sockets)."""
    from vf import vloop

    return vloop.run(coro)


class LegalityWatch:
    """Plugin + subscriber that evaluates the legality oracle at every
    observation point the engine offers."""

    def __init__(self, machine: Any) -> None:
        self.machine = machine
        self.bad: List[str] = []
        self.points = 0

    # plugin hooks (duck-typed; _SafePlugin fills in the rest)
    def on_transition(self, interp: Any, from_states: Any, to_states: Any, transition: Any) -> None:
        self.points += 1
        r = model.legal_reason(list(interp._active_state_nodes), self.machine)
        if r is not None:
            self.bad.append(f"on_transition(live): {r}")
        r2 = model.legal_reason(list(to_states), self.machine)
        if r2 is not None:
            self.bad.append(f"on_transition(to_states): {r2}")

    def on_event_received(self, interp: Any, event: Any) -> None:
        return None

    def subscriber(self, interp: Any) -> None:
        self.points += 1
        r = model.legal_reason(list(interp._active_state_nodes), self.machine)
        if r is not None:
            self.bad.append(f"subscriber: {r}")


def public_witness(sk: Any, eng: int, seq: List[str], test: Dict[str, Any]) -> Tuple[str, str]:
    """Replays start(); send(seq...); send(TEST) on a fresh interpreter of the
    driver machine with the transition under test declared in the config -
    public API only. Returns ('violates'|'holds', detail)."""
    from xstate_statemachine import Interpreter, SyncInterpreter, create_machine
    from xstate_statemachine.exceptions import XStateMachineError
    from vf import vloop

    machine = create_machine(driver_config(sk, test), logic=make_logic())
    env.pin_hashes(machine)
    w = LegalityWatch(machine)
    allev = list(seq) + ["TEST"]
    if eng == 0:
        it = SyncInterpreter(machine)
        it.use(w)
        it.subscribe(w.subscriber)
        it.start()
        for i, e in enumerate(allev):
            try:
                it.send(e)
            except XStateMachineError:
                pass
            r = model.legal_reason(list(it._active_state_nodes), machine)
            if r is not None:
                return "violates", f"public run start(); send{allev[:i + 1]} -> {r}; active={sorted(n.id for n in it._active_state_nodes)}"
            if w.bad:
                return "violates", f"public run start(); send{allev[:i + 1]} -> observation point: {w.bad[0]}"
        return "holds", f"public run start(); send{allev} stays legal: {sorted(n.id for n in it._active_state_nodes)}"
    it = Interpreter(machine)
    it.use(w)
    it.subscribe(w.subscriber)
    out: List[Optional[str]] = [None]

    async def go() -> None:
        await it.start()
        for i, e in enumerate(allev):
            await it.send(e)
            await it._event_queue.join()
            r = model.legal_reason(list(it._active_state_nodes), machine)
            if r is not None:
                out[0] = f"public run start(); send{allev[:i + 1]} -> {r}; active={sorted(n.id for n in it._active_state_nodes)}"
                break
            if w.bad:
                out[0] = f"public run start(); send{allev[:i + 1]} -> observation point: {w.bad[0]}"
                break
        await it.stop()

    vloop.run(go())
    if out[0]:
        return "violates", out[0]
    return "holds", f"public run start(); send{allev} stays legal"
