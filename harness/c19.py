"""C19 - Python-defined machines and logic discovery.

  pythonic_equiv  a neutral machine description with symbolic feature toggles
      (shape: flat / nested with an inner state re-using an outer state's name
      / nested / parallel; entry-exit action lists; transition forms incl.
      guard, actions, reenter, internal, two candidates for one event; after;
      always; invoke with onDone; compound onDone; tags + meta; history; root
      properties incl. on AND always together; context override) is denoted
      (a) as a JSON config written by hand in this harness, (b) as State /
      Transition objects for build_machine, (c) as MachineBuilder calls,
      (d) as a StateMachine subclass made with type().  Oracle: deep
      fingerprint and the traces of 5 event sequences of (b), (c), (d) equal
      those of create_machine(a); a second build from the SAME definition
      objects, made after the first machine has run and mutated its context,
      equals a fresh JSON machine too (builds are independent).
  discovery  a config whose action / guard / service references are chosen by
      symbolic indices from pools that contain plain names in both spellings,
      built-in action names, spawn_ directives, composite guards nested up to
      3 levels, stateIn; the provider (instance or module) offers a symbolic
      subset of implementations in a symbolic spelling.  Oracle:
      create_machine(logic_providers/modules=...) either returns a machine
      whose logic binds EVERY referenced user name (composites, built-ins and
      spawn_ excluded, spawn_ routed to services) - then running it never
      raises ImplementationMissingError - or raises ImplementationMissingError
      at creation, and it raises exactly when a referenced name is not
      offered; a user implementation named like a built-in (log) is the one
      that runs, under explicit MachineLogic, a MachineLogic subclass and
      discovery alike.
  camel_map  both copies of _snake_to_camel agree on every string and equal
      the reference on plain snake_case names (symbolic str).
"""
from __future__ import annotations

import copy
import types
from typing import Any, Dict, List, Optional, Tuple

from vf import env, vthread
from vf.kf import gate, verdict
from harness import common
from harness.common import pick
from harness import c18

PROPERTY = "C19"
P: Dict[str, Any] = {}
EXPLAIN: List[str] = []
EXPLANATION = (
    "C19 (Python API / discovery): CrossHair executes pythonic._compile_state/_compile_config/_apply_root_properties, "
    "MachineBuilder.build, the StateMachine metaclass, LogicLoader.discover_and_build_logic/_extract_logic_from_node/"
    "_collect_guard_names, MachineLogic._register_subclass_methods and both copies of _snake_to_camel; feature toggles, "
    "name choices, offered subsets and spellings are symbolic."
)
NONTRIVIAL_RULE = "pythonic_equiv: at least one toggle on; discovery: at least one user name referenced; camel_map: non-empty string"
BOUNDS = {
    "pythonic_equiv": "12 feature toggles; each item varies the toggles of 2-3 groups over all their values with the others at a fixed baseline (all off / all on); 3 Python styles; 5 fixed event sequences; 2 builds per definition",
    "discovery": "one of 4 action slots (entry / transition / invoke.onDone / a transition whose event name equals a named delay of the same state) x 12 references with the other slots at a plain name, 8 guard forms (composites up to depth 3), 4 service forms; offered subset = symbolic bit per implementation the config can refer to (others offered); spelling snake/camel; provider kind in {instance, module}",
    "camel_map": "symbolic str, length <= L (item label)",
    "rebuild_independence": "State objects shared by two build_machine() calls with different transition lists (3 plans), 4 forms of State.on (all-string shorthand, object values, mixed), flat / nested, user-side context mutation between builds; the user's definition objects must be unchanged and each build equal to its own JSON denotation",
    "subclass_logic": "MachineLogic subclass chains of depth 1-3; the level that defines the action / guard / service symbolic (or every level = overrides)",
}
ASSUMPTIONS = [
    "the JSON denotation of each description is written by hand in this harness (independent of pythonic.py)",
    "targets of Transition objects are siblings of their source (the documented usage); cross-level targets are outside",
    "name spellings where str.title() and plain camelCase differ (digits, inner capitals) are only required to bind-or-fail, not to bind",
]
WALL_BUDGET = {"quick": 600.0, "thorough": 3000.0}
_M: Dict[str, Any] = {}


def _note(m: str) -> None:
    EXPLAIN.append(m)


def set_params(p: Dict[str, Any]) -> None:
    global P
    P = p
    env.install()
    vthread.install()


# ---------------------------------------------------------------------------
# logic shared by all denotations
# ---------------------------------------------------------------------------

def _mk_action(name: str) -> Any:
    def fn(i: Any, ctx: Any, e: Any, a: Any) -> None:
        r = i.__dict__.get("_rec")
        if r is not None:
            r.append((name, getattr(e, "type", None)))
        ctx.setdefault("seen", []).append(name)   # mutates nested context data on purpose
    return fn


ACTION_NAMES = ["markOne", "markTwo", "markThree", "rootIn", "rootOut"]
SNAKE = {"markOne": "mark_one", "markTwo": "mark_two", "markThree": "mark_three", "rootIn": "root_in", "rootOut": "root_out",
         "isOk": "is_ok", "isOdd": "is_odd", "fetchData": "fetch_data"}


def _guards() -> Dict[str, Any]:
    return {"isOk": lambda c, e: True, "isOdd": lambda c, e: len(c.get("seen", [])) % 2 == 1}


def _svc(i: Any, c: Any, e: Any) -> Any:
    return 7


def _json_logic() -> Any:
    from xstate_statemachine import MachineLogic

    return MachineLogic(actions={n: _mk_action(n) for n in ACTION_NAMES}, guards=_guards(), services={"fetchData": _svc})


# ---------------------------------------------------------------------------
# neutral description -> four denotations
# ---------------------------------------------------------------------------

TOGGLES = {"shape": 4, "ent": 3, "tg": 6, "multi": 2, "aft": 2, "alw": 2, "inv": 2, "dn": 2, "tm": 2, "hist": 2, "rootp": 4, "ctxo": 2}
GROUPS = [["shape", "tg"], ["shape", "multi", "ent"], ["shape", "dn", "hist"], ["rootp", "shape"], ["rootp", "alw", "inv"],
          ["aft", "alw", "inv", "tm"], ["ctxo", "ent", "tm", "rootp"], ["tg", "multi", "ent"], ["shape", "inv", "aft"]]


def _go_entry(T: Dict[str, int], target: str) -> Dict[str, Any]:
    """JSON form of the a --GO--> <target> transition for toggle tg."""
    tg = T["tg"]
    d: Dict[str, Any] = {}
    if tg != 5:
        d["target"] = target if tg != 4 else "a"
    if tg in (1, 3):
        d["guard"] = "isOk"
    if tg in (2, 3, 5):
        d["actions"] = ["markOne"]
    if tg == 4:
        d["reenter"] = True
    return d


def json_config(T: Dict[str, int], ctx: Dict[str, Any]) -> Dict[str, Any]:
    a: Dict[str, Any] = {}
    if T["ent"] == 1:
        a["entry"] = "markTwo"
    elif T["ent"] == 2:
        a["entry"] = ["markTwo", "markThree"]
        a["exit"] = ["markThree"]
    go: Any = _go_entry(T, "b")
    if T["multi"]:
        go = [{"target": "c", "guard": "isOdd"}, go, {"target": "c", "guard": "isOk", "actions": ["markThree"]}]
    a["on"] = {"GO": go}
    if T["tm"]:
        a["tags"] = ["hot", "busy"]
        a["meta"] = {"k": [1, 2]}
    b: Dict[str, Any] = {"on": {"NEXT": {"target": "c"}, "SKIP": "c", "JUMP": {"target": "c", "actions": ["markOne"]}}}
    if T["aft"]:
        b["after"] = {50: "a", "SLOW": {"target": "c", "actions": ["markTwo"]}}
    if T["inv"]:
        b["invoke"] = {"src": "fetchData", "id": "f", "onDone": {"target": "c", "actions": ["markTwo"]}}
    c: Dict[str, Any] = {"on": {"BACK": {"target": "a"}, "END": {"target": "d"}}}
    if T["alw"]:
        c["on"][""] = {"target": "a", "guard": "isOdd"}
    d: Dict[str, Any] = {"type": "final"}
    shape = T["shape"]
    if shape == 0:
        states: Dict[str, Any] = {"a": a, "b": b, "c": c, "d": d}
    elif shape in (1, 2):
        # W is a compound holding (a, b[, wf][, h]); the outer entry state is called 'a' (shape 1: re-used name) or 's' (shape 2)
        outer_name = "a" if shape == 1 else "s"
        outer: Dict[str, Any] = {"on": {"GO": {"target": "W"}, "PING": {"actions": ["markThree"]}}}
        W: Dict[str, Any] = {"initial": "a", "states": {"a": a, "b": b, "wf": {"type": "final"}}, "on": {"OUT": {"target": "c"}}}
        b["on"]["FIN"] = {"target": "wf"}
        if T["dn"]:
            W["onDone"] = {"target": "c"}
        if T["hist"]:
            W["states"]["h"] = {"type": "history", "history": "deep"}
            c["on"]["HBACK"] = {"target": "W"}
        c["on"]["BACK"] = {"target": outer_name}
        if T["alw"]:
            c["on"][""] = {"target": outer_name, "guard": "isOdd"}
        b["on"]["NEXT"] = {"target": "a"}
        b["on"]["SKIP"] = "a"
        b["on"]["JUMP"] = {"target": "a", "actions": ["markOne"]}
        if T["aft"]:
            b["after"] = {50: "a", "SLOW": {"target": "a", "actions": ["markTwo"]}}
        if T["inv"]:
            b["invoke"] = {"src": "fetchData", "id": "f", "onDone": {"target": "a", "actions": ["markTwo"]}}
        if T["multi"]:
            a["on"]["GO"] = [{"target": "wf", "guard": "isOdd"}, _go_entry(T, "b"), {"target": "wf", "guard": "isOk", "actions": ["markThree"]}]
        states = {outer_name: outer, "W": W, "c": c, "d": d}
    else:
        # parallel state X with two regions; region r1 holds a/b
        r1: Dict[str, Any] = {"initial": "a", "states": {"a": a, "b": b}}
        r2: Dict[str, Any] = {"initial": "u", "states": {"u": {"on": {"GO": {"target": "v"}}}, "v": {"type": "final"}}}
        b["on"]["NEXT"] = {"target": "a"}
        b["on"]["SKIP"] = "a"
        b["on"]["JUMP"] = {"target": "a", "actions": ["markOne"]}
        if T["aft"]:
            b["after"] = {50: "a", "SLOW": {"target": "a", "actions": ["markTwo"]}}
        if T["inv"]:
            b["invoke"] = {"src": "fetchData", "id": "f", "onDone": {"target": "a", "actions": ["markTwo"]}}
        if T["multi"]:
            a["on"]["GO"] = [{"target": "b", "guard": "isOdd", "actions": ["markThree"]}, _go_entry(T, "b"), {"target": "b", "guard": "isOk", "actions": ["markThree"]}]
        X: Dict[str, Any] = {"type": "parallel", "states": {"r1": r1, "r2": r2}, "on": {"OUT": {"target": "c"}}}
        if T["dn"]:
            X["onDone"] = {"target": "c"}
        c["on"]["BACK"] = {"target": "X"}
        if T["alw"]:
            c["on"][""] = {"target": "X", "guard": "isOdd"}
        states = {"X": X, "c": c, "d": d}
    cfg: Dict[str, Any] = {"id": "pm", "initial": list(states)[0], "context": ctx, "states": states}
    rp = T["rootp"]
    if rp == 1:
        cfg["on"] = {"ESC": {"target": "c"}}
    elif rp == 2:
        cfg["on"] = {"": {"target": "d", "guard": "isOdd"}}
    elif rp == 3:
        cfg["on"] = {"ESC": {"target": "c"}, "": {"target": "d", "guard": "isOdd"}}
        cfg["entry"] = ["rootIn"]
        cfg["exit"] = ["rootOut"]
        cfg["tags"] = ["top"]
        cfg["meta"] = {"owner": "x"}
    return cfg


def _state_objects(T: Dict[str, int]) -> Tuple[List[Any], List[Any], Optional[Any], Dict[str, Any]]:
    """(top-level State objects, Transition objects, root State, name->State) for the functional/class styles."""
    from xstate_statemachine.pythonic import State, transition

    def go_kwargs() -> Dict[str, Any]:
        tg = T["tg"]
        k: Dict[str, Any] = {}
        if tg in (1, 3):
            k["guard"] = "isOk"
        if tg in (2, 3, 5):
            k["actions"] = ["markOne"]
        if tg == 4:
            k["reenter"] = True
        if tg == 5:
            k["internal"] = True
        return k

    ak: Dict[str, Any] = {}
    if T["ent"] == 1:
        ak["entry"] = ["markTwo"]
    elif T["ent"] == 2:
        ak["entry"] = ["markTwo", "markThree"]
        ak["exit"] = ["markThree"]
    if T["tm"]:
        ak["tags"] = ["hot", "busy"]
        ak["meta"] = {"k": [1, 2]}
    shape = T["shape"]
    inner_tgt = "c" if shape == 0 else "a"
    bk: Dict[str, Any] = {"on": {"SKIP": inner_tgt, "JUMP": {"target": inner_tgt, "actions": ["markOne"]}}}
    if shape in (1, 2):
        bk["on"]["FIN"] = {"target": "wf"}
    if T["aft"]:
        bk["after"] = {50: "a", "SLOW": {"target": inner_tgt, "actions": ["markTwo"]}}
    if T["inv"]:
        bk["invoke"] = {"src": "fetchData", "id": "f", "onDone": {"target": inner_tgt, "actions": ["markTwo"]}}
    ck: Dict[str, Any] = {}
    back_name = {0: "a", 1: "a", 2: "s", 3: "X"}[shape]
    if T["alw"]:
        ck["always"] = {"target": back_name, "guard": "isOdd"}
    if shape in (1, 2) and T["hist"]:
        ck["on"] = {"HBACK": {"target": "W"}}
    a = State("a", initial=True, **ak)
    b = State("b", **bk)
    c = State("c", **ck)
    d = State("d", final=True)
    trs: List[Any] = []
    names: Dict[str, Any] = {"a": a, "b": b, "c": c, "d": d}
    go_target = a if T["tg"] == 4 else b
    if shape == 0:
        if T["multi"]:
            # three candidates for one event, combined right-nested: t1 | (t2 | t3) must keep the order t1, t2, t3
            trs.append(transition(a, "GO", c, guard="isOdd") | (transition(a, "GO", go_target, **go_kwargs()) | transition(a, "GO", c, guard="isOk", actions=["markThree"])))
        else:
            trs.append(transition(a, "GO", go_target, **go_kwargs()))
        trs.append(transition(b, "NEXT", c))
        trs.append(c.to(a, event="BACK") | c.to(d, event="END"))
        tops = [a, b, c, d]
    elif shape in (1, 2):
        wf = State("wf", final=True)
        kids = [a, b, wf]
        if T["hist"]:
            kids.append(State("h", history="deep"))
        wk: Dict[str, Any] = {}
        if T["dn"]:
            wk["on_done"] = "c"
        W = State("W", states=kids, **wk)
        outer = State("a" if shape == 1 else "s", initial=True)
        if T["multi"]:
            trs.append(transition(a, "GO", wf, guard="isOdd") | (transition(a, "GO", go_target, **go_kwargs()) | transition(a, "GO", wf, guard="isOk", actions=["markThree"])))
        else:
            trs.append(transition(a, "GO", go_target, **go_kwargs()))
        trs.append(transition(b, "NEXT", a))
        trs.append(transition(outer, "GO", W))
        trs.append(outer.internal("PING", actions=["markThree"]))
        trs.append(transition(W, "OUT", c))
        trs.append(c.to(outer, event="BACK") | c.to(d, event="END"))
        tops = [outer, W, c, d]
        names.update({"W": W, "outer": outer})
    else:
        u = State("u", initial=True)
        v = State("v", final=True)
        r1 = State("r1", states=[a, b])
        r2 = State("r2", states=[u, v])
        xk: Dict[str, Any] = {}
        if T["dn"]:
            xk["on_done"] = "c"
        X = State("X", parallel=True, initial=True, states=[r1, r2], **xk)
        if T["multi"]:
            trs.append(transition(a, "GO", b, guard="isOdd", actions=["markThree"]) | (transition(a, "GO", go_target, **go_kwargs()) | transition(a, "GO", b, guard="isOk", actions=["markThree"])))
        else:
            trs.append(transition(a, "GO", go_target, **go_kwargs()))
        trs.append(transition(b, "NEXT", a))
        trs.append(transition(u, "GO", v))
        trs.append(transition(X, "OUT", c))
        trs.append(c.to(X, event="BACK") | c.to(d, event="END"))
        tops = [X, c, d]
    root = None
    rp = T["rootp"]
    if rp == 1:
        root = State(on={"ESC": {"target": "c"}})
    elif rp == 2:
        root = State(always={"target": "d", "guard": "isOdd"})
    elif rp == 3:
        root = State(on={"ESC": {"target": "c"}}, always={"target": "d", "guard": "isOdd"}, entry=["rootIn"], exit=["rootOut"],
                     tags=["top"], meta={"owner": "x"})
    return tops, trs, root, names


def _fn_list() -> Tuple[List[Any], List[Any], List[Any]]:
    acts = []
    for n in ACTION_NAMES:
        f = _mk_action(n)
        f.__name__ = SNAKE[n]
        acts.append(f)
    gs = []
    for n, g in _guards().items():
        def mk(g: Any = g) -> Any:
            def fn(c: Any, e: Any) -> Any:
                return g(c, e)
            return fn
        f = mk()
        f.__name__ = SNAKE[n]
        gs.append(f)

    def fetch_data(i: Any, c: Any, e: Any) -> Any:
        return 7

    return acts, gs, [fetch_data]


class Definition:
    """One Python definition of the description; build() may be called repeatedly."""

    def __init__(self, style: int, T: Dict[str, int], ctx: Dict[str, Any]) -> None:
        from xstate_statemachine.pythonic import MachineBuilder, StateMachine, action, guard, service

        self.style = style
        if style == 0:
            self.tops, self.trs, self.root, _ = _state_objects(T)
            self.fns = _fn_list()
            self.ctx = ctx
        elif style == 2:
            tops, trs, root, _ = _state_objects(T)
            ns: Dict[str, Any] = {"machine_id": "pm", "initial_context": ctx}
            for s in tops:
                ns[f"st_{s.name}_{len(ns)}"] = s
            for k, t in enumerate(trs):
                ns[f"tr{k}"] = t
            if root is not None:
                ns["machine_root"] = root
            acts, gs, svs = _fn_list()
            for f in acts:
                def mk(f: Any = f) -> Any:
                    def m(self: Any, i: Any, c: Any, e: Any, a: Any) -> None:
                        return f(i, c, e, a)
                    m.__name__ = f.__name__
                    return m
                ns[f.__name__] = action(mk())
            for f in gs:
                def mkg(f: Any = f) -> Any:
                    def m(self: Any, c: Any, e: Any) -> Any:
                        return f(c, e)
                    m.__name__ = f.__name__
                    return m
                ns[f.__name__] = guard(mkg())
            for f in svs:
                def mks(f: Any = f) -> Any:
                    def m(self: Any, i: Any, c: Any, e: Any) -> Any:
                        return f(i, c, e)
                    m.__name__ = f.__name__
                    return m
                ns[f.__name__] = service(mks())
            self.cls = type("PM", (StateMachine,), ns)
        else:
            # builder: top-level states by .state(), children as raw dicts, transitions by top-level names
            j = json_config(T, ctx)   # only used for the nested children's raw dicts (the builder takes raw dicts there)
            bld = MachineBuilder("pm").context(ctx)
            first = True
            for name, sc in j["states"].items():
                kw: Dict[str, Any] = {}
                if sc.get("type") == "final":
                    kw["final"] = True
                if sc.get("type") == "parallel":
                    kw["parallel"] = True
                for jk, pk in (("entry", "entry"), ("exit", "exit"), ("after", "after"), ("invoke", "invoke"), ("tags", "tags"), ("meta", "meta")):
                    if jk in sc:
                        v = sc[jk]
                        kw[pk] = [v] if jk in ("entry", "exit") and isinstance(v, str) else copy.deepcopy(v)
                on = {k: copy.deepcopy(v) for k, v in sc.get("on", {}).items() if k not in ("GO", "NEXT", "BACK", "END", "OUT", "PING", "")}
                if on:
                    kw["on"] = on
                if "" in sc.get("on", {}):
                    kw["always"] = copy.deepcopy(sc["on"][""])
                if "onDone" in sc:
                    kw["on_done"] = sc["onDone"]["target"]
                bld.state(name, initial=first, **kw)
                first = False
                if "states" in sc:
                    bld.child_states(name, initial=sc.get("initial"), states=copy.deepcopy(sc["states"]), parallel=sc.get("type") == "parallel")
                for ev in ("GO", "NEXT", "BACK", "END", "OUT", "PING"):
                    if ev in sc.get("on", {}):
                        lst = sc["on"][ev]
                        for t in (lst if isinstance(lst, list) else [lst]):
                            bld.transition(name, ev, t.get("target"), guard=t.get("guard"), actions=t.get("actions"),
                                           reenter=bool(t.get("reenter")), internal="target" not in t)
            rootkw = {k: copy.deepcopy(j[k]) for k in ("on", "entry", "exit", "tags", "meta") if k in j}
            if rootkw:
                bld.root(**rootkw)
            for n in ACTION_NAMES:
                bld.action(n, _mk_action(n))
            for n, g in _guards().items():
                bld.guard(n, g)
            bld.service("fetchData", _svc)
            self.bld = bld

    def build(self, override: Optional[Dict[str, Any]] = None) -> Any:
        from xstate_statemachine.pythonic import build_machine

        if self.style == 0:
            acts, gs, svs = self.fns
            return build_machine(id="pm", states=self.tops, transitions=self.trs, actions=acts, guards=gs, services=svs,
                                 context=override if override is not None else self.ctx, root=self.root)
        if self.style == 2:
            return self.cls.create_machine(context=override)
        return self.bld.build(context=override)


SEQS = [("GO", "NEXT", "BACK", "GO"), ("GO", "GO", "SKIP", "END"), ("PING", "GO", "GO", "FIN"), ("GO", "JUMP", "ESC", "HBACK"), ("GO", "OUT", "BACK", "GO")]


def _traces(m: Any) -> Any:
    """Traces of the 5 canned sequences. Runs with tracing off: every input is concrete here and the interpreter is not
    this property's subject (the pythonic compilation that produced ``m`` is, and that ran under the tracer)."""
    return common.native(_traces_body, m)


def _traces_body(m: Any) -> Any:
    from xstate_statemachine import SyncInterpreter

    out = []
    for seq in SEQS:
        vthread.SCHED.reset(0.0)
        it = SyncInterpreter(m)
        rec: List[Any] = []
        it.__dict__["_rec"] = rec
        it.start()
        row: List[Any] = [(sorted(it.current_state_ids), list(rec))]
        for e in seq:
            it.send(e)
            row.append((sorted(it.current_state_ids), list(rec), it.status))
        row.append(repr(sorted(it.context.items(), key=repr)))
        it.stop()
        out.append(row)
    vthread.SCHED.reset(0.0)
    return out


def _first_diff(a: Any, b: Any, path: str = "") -> str:
    if type(a) is not type(b):
        return f"{path}: {a!r} vs {b!r}"
    if isinstance(a, (tuple, list)):
        if len(a) != len(b):
            return f"{path}: length {len(a)} vs {len(b)}: {a!r} vs {b!r}"[:700]
        for k, (x, y) in enumerate(zip(a, b)):
            if x != y:
                return _first_diff(x, y, f"{path}[{k}]")
    return f"{path}: {a!r} vs {b!r}"[:700]


STYLES = ["build_machine", "MachineBuilder", "StateMachine"]


def pythonic_equiv(style: int, v0: int, v1: int, v2: int, v3: int) -> bool:
    """
    pre: 0 <= style <= 2
    pre: gate('pythonic_equiv', style=style, v0=v0, v1=v1)
    post: _
    """
    from xstate_statemachine import create_machine
    from xstate_statemachine.exceptions import XStateMachineError

    base = P["base"]
    if "style" in P and style != P["style"]:
        return verdict(True, nontrivial=False)   # the other styles are separate work items
    T = {k: (min(base, n - 1) if base else 0) for k, n in TOGGLES.items()}
    for name, v in zip(P["vary"], [v0, v1, v2, v3]):
        T[name] = pick(v, TOGGLES[name])
    if T["shape"] == 3 and T["hist"]:
        T["hist"] = 0
    ctx0 = {"n": 1, "seen": []}
    def observe(m: Any) -> Any:
        return common.native(lambda: (c18.fingerprint(m), _traces_body(m)))

    def fresh(ctx: Dict[str, Any]) -> Any:
        return common.native(lambda: create_machine(json_config(T, copy.deepcopy(ctx)), logic=_json_logic()))

    ref = fresh(ctx0)
    want = observe(ref)
    why = None
    try:
        d = Definition(style, T, copy.deepcopy(ctx0))
        m1 = d.build()
        got1 = observe(m1)
        if got1[0] != want[0]:
            why = "structure differs from the JSON denotation: " + _first_diff(got1[0], want[0])
        elif got1[1] != want[1]:
            why = "behaviour differs from the JSON denotation: " + _first_diff(got1[1], want[1])
        else:
            # second build from the same definition, after the first machine ran
            over = {"n": 2, "seen": ["x"]} if T["ctxo"] else None
            m2 = d.build(copy.deepcopy(over))
            ref2 = fresh(over if over is not None else ctx0)
            got2 = observe(m2)
            want2 = observe(ref2)
            if got2 != want2:
                why = "the SECOND build from one definition differs from a fresh machine: " + _first_diff(got2, want2)
            elif observe(m1) != want:
                why = "the first machine changed after the second build: " + _first_diff(observe(m1), want)
    except XStateMachineError as e:
        why = f"the Python definition was rejected: {type(e).__name__}: {e}"
    if why:
        _note(f"{STYLES[style]} toggles={ {k: v for k, v in T.items() if v} }: {why}")
    return verdict(why is None, nontrivial=any(T.values()))


# ---------------------------------------------------------------------------
# discovery
# ---------------------------------------------------------------------------

ACTION_REFS: List[Any] = ["doIt", "do_it", "logIt", "log_it", {"type": "log", "params": {"message": "m"}},
                          {"type": "xstate.assign", "params": {"assignment": {"k": 1}}}, "spawn_kid", "spawn_blocking_kid",
                          {"type": "raise", "params": {"event": {"type": "NOPE"}}}, "missingOne", "log", "kid"]
GUARD_FORMS: List[Any] = [
    "isOk", "is_ok",
    {"type": "and", "children": ["isOk", "isReady"]},
    {"type": "not", "children": [{"type": "or", "children": ["isOk", "isReady"]}]},
    {"type": "stateIn", "params": {"state": "#dm.a"}},
    "nope",
    {"type": "and", "children": ["isOk", {"type": "not", "children": [{"type": "or", "children": ["isReady", "isDeep"]}]}]},
    {"type": "or", "params": {"guards": ["is_ok", {"type": "and", "children": ["isDeep"]}]}},
]
SERVICE_FORMS = ["fetchData", "fetch_data", "kid", "nosvc"]
IMPLS = ["do_it", "log_it", "is_ok", "is_ready", "is_deep", "fetch_data", "kid"]   # offered (or not) by the provider; bit k of the mask
KIND = {"do_it": "a", "log_it": "a", "is_ok": "g", "is_ready": "g", "is_deep": "g", "fetch_data": "s", "kid": "s"}


def _camel(s: str) -> str:
    parts = s.split("_")
    return parts[0] + "".join(p[:1].upper() + p[1:] for p in parts[1:])


def _ref_name(r: Any) -> str:
    return r if isinstance(r, str) else r["type"]


def _guard_leaves(g: Any) -> List[str]:
    if isinstance(g, str):
        return [g]
    if g["type"] in ("and", "or", "not"):
        kids = g.get("children") or (g.get("params") or {}).get("guards") or []
        out: List[str] = []
        for k in kids:
            out.extend(_guard_leaves(k))
        return out
    if g["type"] == "stateIn":
        return []
    return [g["type"]]


BUILTIN_NAMES = {"log", "xstate.assign", "raise"}


def discovery(slot: int, a: int, s: int, mask: int, spell: bool) -> bool:
    """
    pre: 0 <= mask < 128
    pre: gate('discovery', slot=slot, a=a, s=s, mask=mask, spell=spell)
    post: _
    """
    from xstate_statemachine import SyncInterpreter, create_machine
    from xstate_statemachine.exceptions import ImplementationMissingError

    kind = P.get("kind", 0)
    refs: List[Any] = ["doIt", "doIt", "doIt", "doIt"]
    refs[P["slot"] if "slot" in P else pick(slot, 4)] = ACTION_REFS[pick(a, len(ACTION_REFS))]
    gf = GUARD_FORMS[P["gfix"]]
    sf = SERVICE_FORMS[pick(s, len(SERVICE_FORMS))]
    # only the implementations the config can possibly refer to get a symbolic "offered" bit (the others are offered)
    named = {_ref_name(r) for r in refs} | set(_guard_leaves(gf)) | {sf}
    named |= {n[len("spawn_blocking_"):] for n in named if n.startswith("spawn_blocking_")} | {n[len("spawn_"):] for n in named if n.startswith("spawn_")}
    relevant = [impl for impl in IMPLS if impl in named or _camel(impl) in named]
    bits = 0
    for k, impl in enumerate(IMPLS):
        if impl not in relevant or (mask >> k) & 1:
            bits |= 1 << k
    mask = bits
    spell = 127 if spell else 0
    ran: List[str] = []
    offered: Dict[str, Any] = {}      # method name as written by the user -> callable
    for k, impl in enumerate(IMPLS):
        if not (mask >> k) & 1:
            continue
        name = _camel(impl) if (spell >> k) & 1 else impl
        offered[name] = impl
    # the user also supplies an action called 'log' (same name as a built-in) whenever the config mentions 'log'
    user_log = "log" in named
    kid = _kid_machine()

    def mk(impl: str) -> Any:
        if KIND[impl] == "a":
            def act(self: Any, i: Any, c: Any, e: Any, a: Any) -> None:
                ran.append(impl)
            return act
        if KIND[impl] == "g":
            def grd(self: Any, c: Any, e: Any) -> bool:
                ran.append(impl)
                return True
            return grd

        def svc(self: Any, i: Any, c: Any, e: Any) -> Any:
            ran.append(impl)
            return 1
        return svc

    ns: Dict[str, Any] = {name: mk(impl) for name, impl in offered.items()}
    if user_log:
        def log(self: Any, i: Any, c: Any, e: Any, a: Any) -> None:
            ran.append("user-log")
        ns["log"] = log
    cfg = {
        "id": "dm", "initial": "a",
        "states": {
            # slot 3: TIMEOUT is an event of 'a' AND the name of a delay of 'a' (after: {"TIMEOUT": ...}) - two different maps
            "a": {"entry": [refs[0]], "on": {"GO": {"target": "b", "guard": gf, "actions": [refs[1]]},
                                             "TIMEOUT": {"target": "c", "actions": [refs[3]]}},
                  "after": {"TIMEOUT": {"target": "c"}}},
            "b": {"invoke": {"src": sf, "onDone": {"target": "c", "actions": [refs[2]]}}, "on": {"NOPE": {"target": "c"}}},
            "c": {},
        },
    }
    if kind == 0:
        prov = type("Prov", (), ns)()
        kw: Dict[str, Any] = {"logic_providers": [prov]}
    else:
        mod = types.ModuleType("c19_mod")
        for name, f in ns.items():
            def mkfn(f: Any = f) -> Any:
                if f.__code__.co_argcount == 5:
                    return lambda i, c, e, a: f(None, i, c, e, a)
                if f.__code__.co_argcount == 3:
                    return lambda c, e: f(None, c, e)
                return lambda i, c, e: f(None, i, c, e)
            fn = mkfn()
            fn.__name__ = name
            setattr(mod, name, fn)
        kw = {"logic_modules": [mod]}
    # ---- reference: which user names does the config reference, and are they offered? ----
    avail = set()
    for name in ns:
        avail.add(name)
        if name in (SNAKE_PLAIN := set(IMPLS)):
            avail.add(_camel(name))
    need_a, need_g, need_s = [], [], []
    for r in refs:
        n = _ref_name(r)
        if n.startswith("spawn_blocking_"):
            need_s.append(n[len("spawn_blocking_"):])
        elif n.startswith("spawn_"):
            need_s.append(n[len("spawn_"):])
        elif n in BUILTIN_NAMES:
            continue
        else:
            need_a.append(n)
    need_g = _guard_leaves(gf)
    need_s.append(sf)
    missing = [n for n in need_a + need_g + need_s if n not in avail]
    why = None
    m = None
    try:
        m = create_machine(copy.deepcopy(cfg), **kw)
    except ImplementationMissingError as e:
        if not missing:
            why = f"creation failed with ImplementationMissingError({e}) although every referenced name is offered ({sorted(avail)})"
    except Exception as e:  # noqa: BLE001
        why = f"creation raised {type(e).__name__}: {e}"
    else:
        if missing:
            why = f"creation succeeded although {missing} has no implementation (offered: {sorted(avail)})"
        else:
            for n in need_a:
                if n not in m.logic.actions:
                    why = f"action '{n}' referenced but not bound"
            for n in need_g:
                if n not in m.logic.guards:
                    why = f"guard '{n}' referenced (inside {gf}) but not bound"
            for n in need_s:
                if n not in m.logic.services:
                    why = f"service '{n}' referenced but not bound"
            if why is None:
                # bound names must be enough to RUN: no ImplementationMissingError at run time
                def run() -> Optional[str]:
                    vthread.SCHED.reset(0.0)
                    it = SyncInterpreter(m)
                    try:
                        it.start()
                        it.send("GO")
                    except ImplementationMissingError as e:
                        return f"run time ImplementationMissingError after a successful creation: {e}"
                    except Exception:  # noqa: BLE001  (anything else is not this obligation's subject)
                        pass
                    finally:
                        try:
                            it.stop()
                        except Exception:  # noqa: BLE001
                            pass
                    return None

                why = common.native(run)
                if why is None and user_log and any(_ref_name(r) == "log" for r in refs[:2]) and "user-log" not in ran:
                    why = "the provider supplies an action called 'log'; the config uses 'log'; the BUILT-IN ran instead of the user's implementation"
    if why:
        _note(f"refs={refs} guard={gf} service={sf} offered={sorted(ns)} via {'provider' if kind == 0 else 'module'}: {why}")
    return verdict(why is None, nontrivial=bool(need_a or need_g))


def _kid_machine() -> Any:
    m = _M.get("kid")
    if m is None:
        from xstate_statemachine import MachineLogic, create_machine

        m = create_machine({"id": "kid", "initial": "x", "states": {"x": {"type": "final"}}}, logic=MachineLogic())
        _M["kid"] = m
    return m


def precedence(which: int, how: int) -> bool:
    """
    pre: 0 <= which <= 3 and 0 <= how <= 2
    pre: gate('precedence', which=which, how=how)
    post: _
    """
    from xstate_statemachine import Interpreter, MachineLogic, SyncInterpreter, create_machine

    name = ["log", "assign", "raise", "sendTo"][which]
    ran: List[str] = []
    cfg = {"id": "pm2", "initial": "a", "context": {"k": 0},
           "states": {"a": {"on": {"GO": {"actions": [{"type": name, "params": {"message": "m", "assignment": {"k": 1}, "event": {"type": "X"}, "to": "nobody"}}]}}}}}

    def user(i: Any, c: Any, e: Any, a: Any) -> None:
        ran.append("user")

    if how == 0:
        logic = MachineLogic(actions={name: user})
        m = create_machine(cfg, logic=logic)
    elif how == 1:
        def meth(self: Any, i: Any, c: Any, e: Any, a: Any) -> None:
            ran.append("user")
        meth.__name__ = name
        sub = type("L", (MachineLogic,), {name: meth})
        m = create_machine(cfg, logic=sub())
    else:
        def meth2(self: Any, i: Any, c: Any, e: Any, a: Any) -> None:
            ran.append("user")
        prov = type("Prov", (), {name: meth2})()
        m = create_machine(cfg, logic_providers=[prov])
    why = None
    for eng in (0, 1):
        ran.clear()
        if eng == 0:
            it = SyncInterpreter(m)
            it.start()
            it.send("GO")
            k = it.context.get("k")
            it.stop()
        else:
            it2 = Interpreter(m)

            async def go() -> None:
                await it2.start()
                await it2.send("GO")
                await it2._event_queue.join()
                await it2.stop()

            common.drive(go())
            k = it2.context.get("k")
        if ran != ["user"]:
            why = f"{'sync' if eng == 0 else 'async'}: action '{name}' supplied by the user via {['MachineLogic(actions=)', 'MachineLogic subclass method', 'logic_providers'][how]} ran {len(ran)} time(s); context k={k}"
            break
        if k != 0:
            why = f"{'sync' if eng == 0 else 'async'}: the built-in '{name}' ALSO ran (k={k})"
            break
    if why:
        _note(why)
    return verdict(why is None)


def camel_map(s: str) -> bool:
    """
    pre: gate('camel_map', s=s)
    pre: len(s) <= P.get("L", 3)
    post: _
    """
    from xstate_statemachine.logic_loader import _snake_to_camel as f1
    from xstate_statemachine.pythonic import _snake_to_camel as f2

    r1, r2 = f1(s), f2(s)
    why = None
    if r1 != r2:
        why = f"logic_loader and pythonic disagree on {s!r}: {r1!r} vs {r2!r}"
    else:
        plain = len(s) > 0 and all(("a" <= ch <= "z") or ch == "_" for ch in s)
        if plain and r1 != _camel(s):
            why = f"_snake_to_camel({s!r}) = {r1!r}, reference {_camel(s)!r}"
    if why:
        _note(why)
    return verdict(why is None, nontrivial=len(s) > 0)


def rebuild_independence(onform: int, order: int, nested: bool, ctxmut: bool) -> bool:
    """
    pre: gate('rebuild_independence', onform=onform, order=order, nested=nested, ctxmut=ctxmut)
    post: _
    """
    from xstate_statemachine import create_machine
    from xstate_statemachine.exceptions import XStateMachineError
    from xstate_statemachine.pythonic import MachineBuilder, State, build_machine, transition

    of = pick(onform, 4)
    od = pick(order, 3)
    # the user's State objects, shared by both builds
    on_idle: Dict[str, Any] = [{"ABORT": "done"}, {"ABORT": {"target": "done", "actions": ["markOne"]}},
                               {"ABORT": "done", "PING": {"actions": ["markTwo"]}}, {"ABORT": "done", "SKIP": "busy"}][of]
    idle = State("idle", initial=True, on=on_idle, entry=["markTwo"], after={30: "busy"}, always={"target": "done", "guard": "isOdd"},
                 tags=["t"], meta={"m": [1]})
    busy = State("busy", on={"ABORT": "done"}, invoke={"src": "fetchData", "onDone": {"target": "done"}})
    done = State("done", final=True)
    tops: List[Any] = [idle, busy, done]
    if nested:
        tops = [State("W", initial=True, states=[idle, busy], on_done="done"), done]
        busy.on = {"ABORT": "idle"}
        busy.invoke = {"src": "fetchData", "onDone": {"target": "idle"}}
        idle.always = {"target": "busy", "guard": "isOdd"}
        idle.on = {k: (v if v != "done" else "busy") for k, v in on_idle.items()}
        if isinstance(idle.on.get("ABORT"), dict):
            idle.on["ABORT"] = {"target": "busy", "actions": ["markOne"]}
    t_full = [transition(idle, "GO", busy, actions=["markOne"]), transition(busy, "GO", idle), transition(idle, "ABORT2", busy, guard="isOk")]
    ctx = {"n": 1, "seen": []}
    saved = copy.deepcopy({"idle.on": idle.on, "idle.after": idle.after, "idle.always": idle.always, "idle.entry": idle.entry, "idle.tags": idle.tags,
                           "idle.meta": idle.meta, "busy.on": busy.on, "busy.invoke": busy.invoke, "ctx": ctx})

    def expected(trs: List[Any]) -> Dict[str, Any]:
        def st(s: Any) -> Dict[str, Any]:
            c: Dict[str, Any] = {}
            if s.final:
                c["type"] = "final"
            o = copy.deepcopy(saved.get(f"{s.name}.on") or {})
            if s.name == "idle":
                o[""] = copy.deepcopy(saved["idle.always"])
                c["entry"] = "markTwo"
                c["after"] = copy.deepcopy(saved["idle.after"])
                c["tags"] = ["t"]
                c["meta"] = {"m": [1]}
            if s.name == "busy":
                c["invoke"] = copy.deepcopy(saved["busy.invoke"])
            for t in trs:
                if t.source is s:
                    e: Dict[str, Any] = {"target": t.target.name}
                    if t.guard:
                        e["guard"] = t.guard
                    if t.actions:
                        e["actions"] = list(t.actions)
                    o[t.event] = e
            if o:
                c["on"] = o
            return c
        if nested:
            states = {"W": {"initial": "idle", "states": {"idle": st(idle), "busy": st(busy)}, "onDone": {"target": "done"}}, "done": st(done)}
            return {"id": "rb", "initial": "W", "context": copy.deepcopy(saved["ctx"]), "states": states}
        return {"id": "rb", "initial": "idle", "context": copy.deepcopy(saved["ctx"]), "states": {"idle": st(idle), "busy": st(busy), "done": st(done)}}

    plans = [[t_full, []], [[], t_full], [t_full[:1], t_full[1:]]][od]
    acts, gs, svs = _fn_list()
    why = None
    try:
        for k, trs in enumerate(plans):
            m = build_machine(id="rb", states=tops, transitions=list(trs), actions=acts, guards=gs, services=svs, context=ctx)
            ref = common.native(lambda: create_machine(expected(trs), logic=_json_logic()))
            got = common.native(lambda: (c18.fingerprint(m), _traces_body(m)))
            want = common.native(lambda: (c18.fingerprint(ref), _traces_body(ref)))
            if got != want:
                why = f"build #{k + 1} (transitions {[repr(t) for t in trs]}) differs from the machine its definition denotes: " + _first_diff(got, want)
                break
            if ctxmut:
                ctx["seen"].append("user-side mutation")      # the user's dict changes between builds ...
                saved["ctx"]["seen"].append("user-side mutation")   # ... and the next build must see exactly that
            now = {"idle.on": idle.on, "idle.after": idle.after, "idle.always": idle.always, "idle.entry": idle.entry, "idle.tags": idle.tags,
                   "idle.meta": idle.meta, "busy.on": busy.on, "busy.invoke": busy.invoke, "ctx": ctx}
            if now != saved:
                bad = [key for key in saved if now[key] != saved[key]]
                why = f"build #{k + 1} (or running its machine) modified the user's definition objects: {bad}: {now[bad[0]]!r} was {saved[bad[0]]!r}"
                break
    except XStateMachineError as e:
        why = f"rejected: {type(e).__name__}: {e}"
    if why:
        _note(f"on-form {of} order {od} nested={bool(nested)}: {why}")
    return verdict(why is None)


def subclass_logic(la: int, lg: int, ls: int, depth: int) -> bool:
    """
    pre: gate('subclass_logic', la=la, lg=lg, ls=ls, depth=depth)
    post: _
    """
    from xstate_statemachine import MachineLogic, SyncInterpreter, create_machine
    from xstate_statemachine.exceptions import ImplementationMissingError

    d = 1 + pick(depth, 3)                 # number of class levels below MachineLogic
    levels = [pick(x, d + 1) for x in (la, lg, ls)]     # the level that defines the action / guard / service; == d means "every level" (overrides)
    ran: List[str] = []

    def mk(kind: str, lvl: int) -> Any:
        if kind == "a":
            def doIt(self: Any, i: Any, c: Any, e: Any, a: Any) -> None:
                ran.append(f"a@{lvl}")
            return doIt
        if kind == "g":
            def isOk(self: Any, c: Any, e: Any) -> bool:
                ran.append(f"g@{lvl}")
                return True
            return isOk

        def fetchData(self: Any, i: Any, c: Any, e: Any) -> Any:
            ran.append(f"s@{lvl}")
            return 1
        return fetchData

    base: Any = MachineLogic
    for lvl in range(d):
        ns: Dict[str, Any] = {}
        for kind, name, where in (("a", "doIt", levels[0]), ("g", "isOk", levels[1]), ("s", "fetchData", levels[2])):
            if where == lvl or where == d:
                ns[name] = mk(kind, lvl)
        base = type(f"L{lvl}", (base,), ns)
    cfg = {"id": "sl", "initial": "a", "states": {
        "a": {"on": {"GO": {"target": "b", "guard": "isOk", "actions": ["doIt"]}}},
        "b": {"invoke": {"src": "fetchData", "onDone": {"target": "c"}}}, "c": {}}}
    why = None
    try:
        logic = base()
        m = create_machine(cfg, logic=logic)
        for name, reg in (("doIt", logic.actions), ("isOk", logic.guards), ("fetchData", logic.services)):
            if name not in reg:
                why = f"'{name}' (defined {['on level ' + str(x) if x < d else 'on every level' for x in levels]}) is not registered by the {d}-level MachineLogic subclass"
        if why is None:
            def run() -> Optional[str]:
                vthread.SCHED.reset(0.0)
                it = SyncInterpreter(m)
                try:
                    it.start()
                    it.send("GO")
                except ImplementationMissingError as e:
                    return f"run time ImplementationMissingError: {e}"
                finally:
                    it.stop()
                return None
            why = common.native(run)
        if why is None:
            # the most derived definition is the one that runs
            want = sorted(f"{k}@{(lv if lv < d else d - 1)}" for k, lv in zip("ags", levels))
            if sorted(ran) != want:
                why = f"implementations that ran: {sorted(ran)}, expected {want}"
    except ImplementationMissingError as e:
        why = f"creation failed: {e}"
    if why:
        _note(f"{d}-level subclass, levels {levels}: {why}")
    return verdict(why is None)


def kf_discovery_builtin_named(slot: Any = 0, a: Any = 0, **_k: Any) -> bool:
    """Known finding C19-discovery-ignores-user-builtin-name: the config references the action 'log' (string or object
    form, ACTION_REFS[4] / ACTION_REFS[10]) in the entry or transition slot and the provider offers a method 'log'."""
    return (a == 4 or a == 10) and P.get("slot", 0) in (0, 1)


def kf_applies_discovery(params: Dict[str, Any]) -> bool:
    return params.get("slot", 0) in (0, 1)


def kf_precedence_via_discovery(which: Any = 0, how: Any = 0, **_k: Any) -> bool:
    """Same finding seen through the precedence obligation: the user implementation comes from logic_providers."""
    return how == 2


OBLIGATIONS = {"pythonic_equiv": pythonic_equiv, "discovery": discovery, "precedence": precedence, "camel_map": camel_map,
               "rebuild_independence": rebuild_independence, "subclass_logic": subclass_logic}
PROBES = {
    "pythonic_equiv": [{"style": 0, "v0": 1}, {"style": 2, "v0": 1}, {"style": 0, "v0": 3}, {"style": 2, "v0": 3, "v1": 1}, {"style": 1, "v0": 1, "v1": 1}],
    "discovery": [{"mask": 127}, {"mask": 111}, {"a": 10, "mask": 127}, {"a": 4, "slot": 1, "mask": 127}, {"a": 6, "slot": 2, "mask": 127}],
}


def items(tier: str, seed: int) -> List[Dict[str, Any]]:
    quick = tier == "quick"
    out: List[Dict[str, Any]] = []
    for gi, grp in enumerate(GROUPS):
        for base in ((0,) if quick and gi % 2 else (0, 1)):
            for style in range(3):
                out.append({"ob": "pythonic_equiv", "params": {"vary": grp, "base": base, "style": style}, "timeout": 500 if quick else 1500,
                            "label": f"pythonic_equiv[{STYLES[style]},{'+'.join(grp)},base={'on' if base else 'off'}]"})
    for gfix in range(len(GUARD_FORMS)):
        for kind in (0, 1):
            if quick:
                out.append({"ob": "discovery", "params": {"gfix": gfix, "kind": kind, "slot": (gfix + kind) % 4}, "timeout": 400,
                            "label": f"discovery[guard form {gfix},{'provider' if kind == 0 else 'module'},slot {(gfix + kind) % 4}]"})
            else:
                for slot in range(4):
                    out.append({"ob": "discovery", "params": {"gfix": gfix, "kind": kind, "slot": slot}, "timeout": 2400,
                                "label": f"discovery[guard form {gfix},{'provider' if kind == 0 else 'module'},slot {slot}]"})
    out.append({"ob": "precedence", "params": {}, "timeout": 300, "label": "precedence"})
    out.append({"ob": "rebuild_independence", "params": {}, "timeout": 400, "label": "rebuild_independence"})
    out.append({"ob": "subclass_logic", "params": {}, "timeout": 300, "label": "subclass_logic"})
    out.append({"ob": "camel_map", "params": {"L": 3 if quick else 4}, "timeout": 300 if quick else 2400, "label": f"camel_map[L<={3 if quick else 4}]"})
    return out
