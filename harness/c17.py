"""C17 - the code generator is faithful or refuses.

  codegen_equiv  the real CLI entry point (xstate_statemachine.cli.__main__.main,
      in-process, on a scratch directory) is run on a machine JSON assembled
      from symbolic feature choices: the C19 description family (shape incl.
      re-used names, transition forms, after, always, invoke, onDone, tags,
      meta, history, root properties) plus a guard form out of 9 (params,
      composites spelled with children / params.guards / params.guard, nested
      3 levels, stateIn), an invoke form out of 6 (id == src, id != src,
      input, onError, two invokes), parameterised actions, an unsupported key
      at a symbolic depth (top-level state / nested state / deep state), and
      hostile names (quotes, triple quotes + code, newline, backslash, python
      keyword, colliding spellings, non-ASCII) in a symbolic position (machine
      id / state key / action / guard / service name); template (5), async
      mode and file count are symbolic too.  Oracle:
        * exit status != 0  =>  the output directory is empty;
        * exit status 0     =>  every written file is valid Python and can be
          imported (exec) without output, without touching the injection
          canary and without leaving modules behind; for the pythonic
          templates the machine the module builds has the SAME deep
          fingerprint (states, kinds, initial, history, resolved targets,
          guards with structure and params, actions with params, delays,
          invokes with id/src/input/handlers, tags, meta, context) as
          create_machine(json); for the JSON-loading templates the generated
          logic binds every name the machine references (create_machine with
          the generated provider/module does not raise
          ImplementationMissingError);
        * a config with a key the generator cannot represent is refused;
        * regenerating is byte-identical and --check exits 0 on the output.
"""
from __future__ import annotations

import contextlib
import copy
import io
import json
import logging
import os
import shutil
import sys
import tempfile
import types
from typing import Any, Dict, List, Optional, Tuple

from vf import env, vthread
from vf.kf import gate, verdict
from harness import common
from harness.common import pick
from harness import c18, c19

PROPERTY = "C17"
P: Dict[str, Any] = {}
EXPLAIN: List[str] = []
EXPLANATION = (
    "C17 (code generator): the symbolic variables are the feature choices that assemble the machine JSON, the template, async "
    "mode and file count; for every solver-chosen combination the real CLI main() runs in-process on a scratch directory (cli/"
    "__main__.py, ir.py, emit.py, builders.py, naming.py, extractor.py, validation.py, strategies/*) and its output is executed and "
    "compared with create_machine(json). The generator itself runs on the concrete JSON outside CrossHair's tracer (file system, "
    "black and argparse cannot be traced); CrossHair/z3 enumerate and decide the choice space exhaustively."
)
NONTRIVIAL_RULE = "the CLI exited 0 and a machine was built from its output (or the config carried an unsupported key)"
BOUNDS = {
    "regen_hashseed": "3 name sets (two with action / guard / service names that differ only in letter case) x 5 templates x 4 (async, file count) modes, generated in a child process per PYTHONHASHSEED value (symbolic, 1..4 quick / 1..12 thorough) and compared byte for byte with the output under seed 0; --check run in the second process as well. The seed values are a sample of the seed space",
    "codegen_corpus": "the 104 Stately exports shipped under tests/tests_cli/stately_machines (index symbolic per item range) x 5 templates x 4 (async, file count) modes; deep fingerprint, no traces",
    "codegen_equiv": "C19 description family with the toggles of one group symbolic (others at baseline off/on) x guard form (9) x invoke form (6) x action form (2) x unsupported-key position (4) x hostile name (9) at position (5), two of these extra dimensions symbolic per item; 5 templates x async {default, yes, no} x file count {1,2} symbolic",
}
ASSUMPTIONS = [
    "the generator runs natively on the concrete JSON (its choice space is what the solver explores); scratch directories are created with tempfile and removed after each run",
    "behavioural identity is decided by the deep fingerprint of the built machine plus 5 traces (for configs without hostile names); the CLI's own verifier is NOT trusted (it compares guards by name and invokes by src)",
    "black is called in-process (black.format_str, same version, same line length) instead of through `python -m black -`; isort as in the real pipeline",
]
WALL_BUDGET = {"quick": 900.0, "thorough": 3300.0}
TEMPLATES = ["pythonic-class", "pythonic-builder", "pythonic-functional", "class-json", "function-json"]

GUARDS: List[Any] = [
    None, "isOk", {"type": "isOk", "params": {"k": 1}},
    {"type": "and", "children": ["isOk", "isOdd"]},
    {"type": "not", "params": {"guard": "isOk"}},
    {"type": "or", "params": {"guards": ["isOk", {"type": "isOdd", "params": {"z": [1]}}]}},
    {"type": "stateIn", "params": {"state": "#pm.a"}},
    {"type": "and", "params": {"guards": ["isOk", {"type": "not", "children": [{"type": "or", "children": ["isOdd", "isOk"]}]}]}},
    {"type": "or", "params": {"children": ["isOdd", "isOk"]}},
]
INVOKES: List[Any] = [
    None, {"src": "fetchData"}, {"src": "fetchData", "id": "fetchData", "onDone": {"target": "c"}},
    {"src": "fetchData", "id": "other", "input": {"q": 1}, "onDone": {"target": "c", "actions": ["markTwo"]}, "onError": {"target": "a"}},
    [{"src": "fetchData", "id": "i1", "onDone": "c"}, {"src": "fetchData", "id": "i2"}],
    {"src": "fetchData", "id": "fetchData", "onDone": {"target": "c", "guard": {"type": "isOk", "params": {"lvl": 2}}}},
]
HOSTILE = [None, 'we"ird', 'x"""\nimport builtins; builtins.C17_CANARY = 1\n"""', "line\nbreak", "back\\slash", "class", "my-state|my_state",
           "сост", "'); import builtins; builtins.C17_CANARY = 1; ('",
           # a backslash right before the quote: naive quote-escaping turns \" into \\" and the literal ends there
           'q\\"+str(setattr(__import__("builtins"),"C17_CANARY",1))+"', "q\\'+str(setattr(__import__('builtins'),'C17_CANARY',1))+'"]
POSITIONS = ["id", "state", "action", "guard", "service"]
UNSUPPORTED = [None, ("top", "output", {"r": 1}), ("nested", "output", {"r": 1}), ("deep", "activities", ["beep"])]
_MAIN: Dict[str, Any] = {}


def _note(m: str) -> None:
    EXPLAIN.append(m)


class _InProcessBlack:
    """Stands in for the name ``subprocess`` inside cli/postprocess.py: ``python -m black --quiet --line-length=N -`` is
    answered by the same black, imported in-process (16 workers x 6 interpreter start-ups per path saturate the machine
    otherwise). Anything else goes to the real subprocess module."""

    def __init__(self) -> None:
        import subprocess as _sp

        self._sp = _sp
        self.SubprocessError = _sp.SubprocessError
        self.CompletedProcess = _sp.CompletedProcess

    def run(self, argv: Any, input: Any = None, **kw: Any) -> Any:  # noqa: A002
        if isinstance(argv, list) and argv[1:3] == ["-m", "black"] and argv[-1] == "-":
            try:
                import black
            except ImportError:
                return self._sp.CompletedProcess(argv, 1, stdout="", stderr="No module named black")
            ll = 88
            for a in argv:
                if isinstance(a, str) and a.startswith("--line-length="):
                    ll = int(a.split("=", 1)[1])
            try:
                out = black.format_str(input, mode=black.Mode(line_length=ll))
                return self._sp.CompletedProcess(argv, 0, stdout=out, stderr="")
            except Exception as e:  # noqa: BLE001 - black's InvalidInput etc. = non-zero exit of the CLI
                return self._sp.CompletedProcess(argv, 123, stdout="", stderr=str(e))
        return self._sp.run(argv, input=input, **kw)

    def __getattr__(self, name: str) -> Any:
        return getattr(self._sp, name)


def set_params(p: Dict[str, Any]) -> None:
    global P
    P = p
    env.install()
    vthread.install()
    c19.P = {}
    import xstate_statemachine.cli.postprocess as pp

    logging.disable(logging.CRITICAL)
    if not isinstance(pp.subprocess, _InProcessBlack):
        pp.subprocess = _InProcessBlack()  # type: ignore[attr-defined]


def gen(cfg: Dict[str, Any], template: str, fc: int, am: Optional[str], extra: Tuple[str, ...] = (), keep: Optional[str] = None) -> Tuple[int, Dict[str, str], str, str]:
    """Runs the real CLI in-process. Returns (exit status, {file: text}, console output, scratch dir kept or '')."""
    main = _MAIN.get("main")
    if main is None:
        from xstate_statemachine.cli.__main__ import main as _m

        main = _MAIN["main"] = _m
    d = keep or tempfile.mkdtemp(prefix="c17_")
    try:
        jp = os.path.join(d, "m.json")
        if not keep:
            with open(jp, "w", encoding="utf-8") as f:
                json.dump(cfg, f)
            os.mkdir(os.path.join(d, "out"))
        out = os.path.join(d, "out")
        argv = ["xsm", "generate-template", jp, "-t", template, "-o", out, "-f", "-fc", str(fc)] + list(extra)
        if am:
            argv += ["-am", am]
        old = sys.argv
        sys.argv = argv
        rc = 0
        buf = io.StringIO()
        lvl = logging.root.manager.disable
        logging.disable(logging.CRITICAL)
        try:
            with contextlib.redirect_stdout(buf), contextlib.redirect_stderr(buf):
                main()
        except SystemExit as e:
            rc = e.code if isinstance(e.code, int) else (0 if e.code is None else 1)
        finally:
            sys.argv = old
            logging.disable(lvl)
        files = {}
        for fn in sorted(os.listdir(out)):
            with open(os.path.join(out, fn), encoding="utf-8") as f:
                files[fn] = f.read()
        return rc, files, buf.getvalue(), d
    finally:
        if not keep and not P.get("_keepdirs"):
            pass


def _gfp(g: Any) -> Any:
    """Semantic guard fingerprint: composites by operator + operands (spelling of the operand list is irrelevant),
    leaves by name + params."""
    if g is None:
        return None
    if g.is_composite:
        return ("<op>", g.type, tuple(_gfp(c) for c in g.children))
    p = g.params
    return (g.type, repr(p) if not callable(p) else "<callable>")


def _tfp(t: Any) -> Any:
    base = c18._tfp(t)
    return (base[0], base[1], _gfp(t.guard_def)) + tuple(base[3:])


def fingerprint(m: Any) -> Any:
    from vf import model

    out = []
    for n in model.doc_order(m):
        on = tuple(sorted((ev, tuple(_tfp(t) for t in ts)) for ev, ts in n.on.items()))
        after = tuple(sorted((str(k), tuple(_tfp(t) for t in ts)) for k, ts in n.after.items()))
        inv = tuple((i.id, i.src, repr(i.input), tuple(_tfp(t) for t in i.on_done), tuple(_tfp(t) for t in i.on_error)) for i in n.invoke)
        out.append((n.id, n.type, n.initial, n.history, n.target_str, on, after, inv,
                    _tfp(n.on_done) if n.on_done else None, c18._afp(n.entry), c18._afp(n.exit),
                    tuple(sorted(n.tags)), repr(n.meta), n.custom_id))
    return (tuple(out), repr(getattr(m, "initial_context", None)))


def build_config(T: Dict[str, int], gi: int, ii: int, af: int, ui: int, hi: int, hp: int) -> Tuple[Dict[str, Any], bool]:
    """(config, has_unsupported_key)"""
    cfg = c19.json_config(T, {"n": 1, "seen": []})
    shape = T["shape"]
    holder = cfg["states"] if shape == 0 else (cfg["states"]["W"]["states"] if shape in (1, 2) else cfg["states"]["X"]["states"]["r1"]["states"])
    a, b = holder["a"], holder["b"]
    go = a["on"]["GO"]
    go_t = go[-1] if isinstance(go, list) else go
    if GUARDS[gi] is not None:
        go_t["guard"] = copy.deepcopy(GUARDS[gi])
    if af == 1:
        go_t["actions"] = [{"type": "markOne", "params": {"lvl": [1, "x"]}}, "markTwo"]
    elif af == 2:
        # one candidate list mixing the object form and the shorthand string form; guard isOdd and action markThree are
        # referenced nowhere else, so whoever collects names must look into the object members of a mixed list
        a["on"]["MIX"] = [{"target": "b", "guard": "isOdd", "actions": ["markThree"]}, "b"]
        b.setdefault("after", {})["25"] = [{"target": "a", "guard": {"type": "not", "children": ["isOdd"]}, "actions": ["markThree"]}, "a"]
    if INVOKES[ii] is not None:
        inv = copy.deepcopy(INVOKES[ii])
        if shape != 0:
            for one in (inv if isinstance(inv, list) else [inv]):
                for k in ("onDone", "onError"):
                    if k in one:
                        if isinstance(one[k], str):
                            one[k] = "a"
                        else:
                            one[k]["target"] = "a"
        b["invoke"] = inv
    uns = UNSUPPORTED[ui]
    has_uns = False
    if uns is not None:
        where, key, val = uns
        if where == "top":
            cfg["states"]["d"][key] = val
            has_uns = True
        elif where == "nested" and shape != 0:
            b[key] = val
            has_uns = True
        elif where == "deep" and shape == 3:
            cfg["states"]["X"]["states"]["r2"]["states"]["v"][key] = val
            has_uns = True
        elif where in ("nested", "deep"):
            a[key] = val
            has_uns = True
    h = HOSTILE[hi]
    if h is not None:
        pos = POSITIONS[hp]
        if pos == "id":
            cfg["id"] = h
        elif pos == "state":
            # rename top-level state 'c' (and a sibling for the colliding pair); targets are rewritten
            names = h.split("|") if "|" in h else [h]
            blob = json.dumps(cfg)
            cfg = json.loads(blob)
            cfg["states"] = {(names[0] if k == "c" else k): v for k, v in cfg["states"].items()}
            if len(names) > 1:
                cfg["states"][names[1]] = {"on": {"BACK": {"target": list(cfg["states"])[0]}}}

            def retarget(x: Any) -> None:
                if isinstance(x, dict):
                    for k, v in list(x.items()):
                        if k == "target" and v == "c":
                            x[k] = names[0]
                        elif k in ("SKIP", "onDone") and v == "c":
                            x[k] = names[0]
                        else:
                            retarget(v)
                elif isinstance(x, list):
                    for i, v in enumerate(x):
                        if v == "c" and False:
                            x[i] = names[0]
                        retarget(v)
            retarget(cfg)
        else:
            names = h.split("|") if "|" in h else [h]
            if pos == "action":
                go_t2 = go_t
                go_t2["actions"] = list(names) + (go_t2.get("actions") or [])
            elif pos == "guard":
                go_t["guard"] = {"type": "and", "children": list(names) + ["isOk"]}
            else:
                b["invoke"] = [{"src": n, "id": f"h{k}"} for k, n in enumerate(names)]
    return cfg, has_uns


def _exec_module(code: str, name: str) -> Tuple[Optional[types.ModuleType], Optional[str], str]:
    import builtins

    mod = types.ModuleType(name)
    saved = dict(sys.modules)
    buf = io.StringIO()
    err = None
    lvl = logging.root.manager.disable
    logging.disable(logging.CRITICAL)
    try:
        with contextlib.redirect_stdout(buf), contextlib.redirect_stderr(buf):
            exec(compile(code, f"<{name}>", "exec"), mod.__dict__)
    except BaseException as e:  # noqa: BLE001 - generated code; SystemExit included
        err = f"{type(e).__name__}: {e}"
    finally:
        logging.disable(lvl)
        for n in set(sys.modules) - set(saved):
            sys.modules.pop(n, None)
        sys.modules.update(saved)
    if getattr(builtins, "C17_CANARY", None) is not None:
        delattr(builtins, "C17_CANARY")
        return None, "a string from the JSON was executed as code (injection canary set)", buf.getvalue()
    return (mod if err is None else None), err, buf.getvalue()


def _machine_from(mod: types.ModuleType) -> Any:
    from xstate_statemachine.models import MachineNode

    for v in vars(mod).values():
        if isinstance(v, MachineNode):
            return v
    f = getattr(mod, "build", None)
    if callable(f):
        return f()
    for n, v in vars(mod).items():
        if isinstance(v, type) and not n.startswith("_") and getattr(v, "__module__", None) == mod.__name__ and callable(getattr(v, "create_machine", None)):
            return v.create_machine()
    return None


def check_one(cfg: Dict[str, Any], has_uns: bool, template: str, fc: int, am: Optional[str], traces: bool, regen: bool = True) -> Optional[str]:
    import ast

    from xstate_statemachine import MachineLogic, create_machine
    from xstate_statemachine.exceptions import ImplementationMissingError

    try:
        ref = create_machine(copy.deepcopy(cfg), logic=MachineLogic())
    except Exception:  # noqa: BLE001 - not a valid machine: nothing to compare (C18's subject)
        ref = None
    rc, files, console, d = gen(cfg, template, fc, am)
    try:
        if rc != 0:
            if files:
                return f"exit status {rc} but files were written: {sorted(files)}"
            return None
        if not files:
            return "exit status 0 but nothing was written"
        if has_uns and template.startswith("pythonic"):
            return f"the config has a state-level key the generator cannot represent, yet generation succeeded (files {sorted(files)})"
        want_files = 1 if fc == 1 else 2
        if len(files) != want_files:
            return f"file count {fc} requested, {sorted(files)} written"
        mods = {}
        for fn, code in files.items():
            try:
                ast.parse(code)
            except SyntaxError as e:
                return f"{fn} is not valid Python (line {e.lineno}): {e.msg}"
        # logic module first (the runner imports it by name)
        order = sorted(files, key=lambda fn: (not fn.endswith("_logic.py"), fn))
        for fn in order:
            if fn.endswith("_runner.py") and fc == 2:
                continue   # the runner imports the logic module from disk and runs a simulation under __main__ only; syntax checked above
            mod, err, outp = _exec_module(files[fn], "c17gen_" + fn[:-3].replace("-", "_"))
            if err:
                return f"importing {fn} failed: {err}"
            if outp.strip():
                return f"importing {fn} printed output (side effect): {outp[:200]!r}"
            mods[fn] = mod
        logic_mod = mods[order[0]]
        if template.startswith("pythonic"):
            if ref is None:
                return None
            m = _machine_from(logic_mod)
            if m is None:
                return "the generated module builds no machine"
            fa, fb = fingerprint(m), fingerprint(ref)
            if fa != fb:
                return "the generated machine differs from create_machine(json): " + c19._first_diff(fa, fb)
            if traces:
                lg = c19._json_logic()
                m.logic.actions.update({k: v for k, v in lg.actions.items()})
                m.logic.guards.update(lg.guards)
                m.logic.services.update(lg.services)
                ref2 = create_machine(copy.deepcopy(cfg), logic=c19._json_logic())
                ta, tb = c19._traces(m), c19._traces(ref2)
                if ta != tb:
                    return "the generated machine behaves differently: " + c19._first_diff(ta, tb)
        elif ref is not None:
            # JSON-loading templates: the generated logic must bind every referenced name
            prov = None
            for n, v in vars(logic_mod).items():
                if isinstance(v, type) and n.endswith("Logic") and getattr(v, "__module__", None) == logic_mod.__name__:
                    prov = v
            try:
                if template == "class-json" and prov is not None:
                    create_machine(copy.deepcopy(cfg), logic_providers=[prov()])
                else:
                    create_machine(copy.deepcopy(cfg), logic_modules=[logic_mod])
            except ImplementationMissingError as e:
                return f"the generated logic does not bind every referenced name: {e}"
        if not regen:
            return None
        # regeneration is byte-identical; --check reports no drift
        rc2, files2, _c2, _d2 = gen(cfg, template, fc, am, keep=d)
        if rc2 != 0 or files2 != files:
            changed = [fn for fn in files if files2.get(fn) != files[fn]]
            return f"regenerating from unchanged input: exit {rc2}, files differing {changed}"
        rc3, _f3, c3, _d3 = gen(cfg, template, fc, am, extra=("--check",), keep=d)
        if rc3 != 0:
            return f"--check on freshly generated output exits {rc3}: {c3[-200:]!r}"
        return None
    finally:
        shutil.rmtree(d, ignore_errors=True)


# ---------------------------------------------------------------------------
# the shipped corpus of Stately exports
# ---------------------------------------------------------------------------

CORPUS_DIR = "/repo/tests/tests_cli/stately_machines"
_CORPUS: Dict[str, Any] = {}
_PLAIN = None


def _plain_name(n: str) -> bool:
    """lowerCamel or snake_case identifier: what logic auto-discovery can bind to a generated function."""
    import keyword
    import re

    global _PLAIN
    if _PLAIN is None:
        _PLAIN = re.compile(r"[a-z][a-z0-9]*([A-Z][a-z0-9]*)*|[a-z][a-z0-9]*(_[a-z0-9]+)*")
    return bool(_PLAIN.fullmatch(n)) and not keyword.iskeyword(n) and not re.search(r"[A-Z][A-Z]", n)


def corpus() -> List[Tuple[str, Dict[str, Any], bool]]:
    """[(file name, config, every referenced logic name is plain)] in sorted order."""
    c = _CORPUS.get("list")
    if c is None:
        import glob

        from xstate_statemachine import MachineLogic
        from xstate_statemachine.logic_loader import LogicLoader
        from xstate_statemachine.models import MachineNode

        def extract_logic_names(cfg: Dict[str, Any]) -> Tuple[set, set, set]:
            a: set = set()
            g: set = set()
            sv: set = set()
            LogicLoader._extract_logic_from_node(MachineNode(config=copy.deepcopy(cfg), logic=MachineLogic()), a, g, sv)
            return a, g, sv

        c = []
        logging.disable(logging.CRITICAL)
        for f in sorted(glob.glob(os.path.join(CORPUS_DIR, "*.json"))):
            with open(f, encoding="utf-8") as fh:
                cfg = json.load(fh)
            try:
                a, g, sv = extract_logic_names(cfg)
                plain = all(_plain_name(n) for n in list(a) + list(g) + list(sv))
            except Exception:  # noqa: BLE001
                plain = True
            c.append((os.path.basename(f), cfg, plain))
        _CORPUS["list"] = c
    return c


def codegen_corpus(i: int, mode: int) -> bool:
    """
    pre: gate('codegen_corpus', i=i, mode=mode)
    post: _
    """
    lo, hi = P["range"]
    items_ = corpus()[lo:hi]
    if not items_:
        return verdict(True, nontrivial=False)
    name, cfg, _plain = items_[pick(i, len(items_))]
    template = TEMPLATES[P["tpl"]]
    amode, fcount, regen = MODES[pick(mode, len(MODES))]
    why = common.native(lambda: check_one(copy.deepcopy(cfg), False, template, fcount, amode, traces=False, regen=regen))
    if why:
        _note(f"{name} {template} async={amode} files={fcount}: {why}")
    return verdict(why is None)


def kf_corpus_json_unbindable(i: Any = 0, **_k: Any) -> bool:
    """Known finding C17-json-templates-cannot-bind-non-identifier-names on the corpus: exports that reference a logic
    name which is not a lowerCamel / snake_case identifier ('inline:...', '!x', 'PascalCase', ...)."""
    lo, hi = P["range"]
    items_ = corpus()[lo:hi]
    bad = [k for k, (_n, _c, plain) in enumerate(items_) if not plain]
    last = len(items_) - 1
    for k in bad:
        if i == k or (k == last and not (0 <= i < last)):
            return True
    return False


def kf_applies_corpus_json(params: Dict[str, Any]) -> bool:
    return params.get("tpl") in (3, 4) and "range" in params


EXTRA = {"g": len(GUARDS), "i": len(INVOKES), "af": 3, "u": len(UNSUPPORTED), "h": len(HOSTILE), "hp": len(POSITIONS)}


MODES = [(None, 2, True), ("yes", 1, False), ("no", 2, False), (None, 1, True)]   # (async flag, file count, also check regeneration/--check)


def codegen_equiv(mode: int, v0: int, v1: int, v2: int, x0: int, x1: int) -> bool:
    """
    pre: gate('codegen_equiv', mode=mode, v0=v0, v1=v1, x0=x0, x1=x1)
    post: _
    """
    base = P["base"]
    T = {k: (min(base, n - 1) if base else 0) for k, n in c19.TOGGLES.items()}
    T["ctxo"] = 0
    for name, v in zip(P["vary"], [v0, v1, v2]):
        T[name] = pick(v, c19.TOGGLES[name])
    if T["shape"] == 3 and T["hist"]:
        T["hist"] = 0
    X = {"g": 0, "i": 0, "af": 0, "u": 0, "h": 0, "hp": 0}
    for name, v in zip(P["extra"], [x0, x1]):
        X[name] = pick(v, EXTRA[name])
    template = TEMPLATES[P["tpl"]]
    amode, fcount, regen = MODES[pick(mode, len(MODES))]

    def run() -> Tuple[Optional[str], bool]:
        cfg, has_uns = build_config(T, X["g"], X["i"], X["af"], X["u"], X["h"], X["hp"])
        why = check_one(cfg, has_uns, template, fcount, amode, traces=X["h"] == 0 and X["u"] == 0, regen=regen)
        return why, has_uns

    why, has_uns = common.native(run)
    if why:
        _note(f"{template} async={amode} files={fcount} toggles={ {k: v for k, v in T.items() if v} } extra={ {k: v for k, v in X.items() if v} }: {why}")
    return verdict(why is None)


def kf_json_template_unbindable(x0: Any = 0, x1: Any = 0, **_k: Any) -> bool:  # noqa: D401
    """Known finding C17-json-templates-cannot-bind-non-identifier-names: a hostile (non-identifier / keyword / colliding /
    non-ASCII) name in an action, guard or service position, JSON-loading template (items with extra = h+hp only)."""
    return x0 != 0 and not (0 <= x1 <= 1)


def kf_applies_json_hostile(params: Dict[str, Any]) -> bool:
    return params.get("tpl") in (3, 4) and list(params.get("extra", [])) == ["h", "hp"]


# ---------------------------------------------------------------------------
# regeneration in ANOTHER process (another str hash seed) is byte-identical
# ---------------------------------------------------------------------------

CASE_NAMES = [
    # names that differ only in letter case (legal, distinct implementations), plus neighbours that sort between them
    {"actions": ["logOut", "logout", "LogOut", "logIn"], "guards": ["canRetry", "canretry", "CanRetry"], "services": ["loadData", "loaddata"]},
    {"actions": ["a", "B", "b", "A", "c"], "guards": ["isok", "isOk", "ISOK"], "services": ["svc", "Svc", "SVC"]},
    {"actions": ["markOne", "markTwo", "markThree"], "guards": ["isOk", "isOdd"], "services": ["fetchData"]},
]
_GENPROBE: Dict[Any, Any] = {}


def _case_config(ni: int) -> Dict[str, Any]:
    n = CASE_NAMES[ni]
    return {
        "id": "cm", "initial": "a", "context": {"n": 0},
        "states": {
            "a": {"entry": list(n["actions"][:2]), "on": {"GO": [{"target": "b", "guard": g, "actions": [n["actions"][k % len(n["actions"])]]}
                                                                   for k, g in enumerate(n["guards"])] + [{"target": "b", "actions": list(n["actions"])}]}},
            "b": {"invoke": [{"src": s_, "id": f"i{k}", "onDone": {"target": "a"}} for k, s_ in enumerate(n["services"])],
                  "exit": list(reversed(n["actions"])), "on": {"BACK": "a"}},
        },
    }


def _gen_in_child(ni: int, template: str, fc: int, am: Optional[str], seed: int, check: bool) -> Any:
    key = (ni, template, fc, am, seed, check)
    v = _GENPROBE.get(key)
    if v is None:
        import subprocess

        env_ = dict(os.environ)
        env_["PYTHONHASHSEED"] = str(seed)
        root = os.path.dirname(os.path.dirname(os.path.abspath(__file__)))
        r = subprocess.run([sys.executable, "-m", "vf.codegen_probe", json.dumps(_case_config(ni)), template, str(fc), am or "-"] + (["--check"] if check else []),
                           cwd=root, env=env_, capture_output=True, text=True, timeout=300)
        if r.returncode != 0:
            from vf.kf import HarnessLimit

            raise HarnessLimit("codegen probe failed: " + r.stderr[-400:])
        v = json.loads(r.stdout.strip().splitlines()[-1])
        _GENPROBE[key] = v
    return v


def regen_hashseed(names: int, tpl: int, mode: int, seed: int) -> bool:
    """
    pre: gate('regen_hashseed', names=names, tpl=tpl, mode=mode, seed=seed)
    post: _
    """
    ni = pick(names, len(CASE_NAMES))
    template = TEMPLATES[pick(tpl, len(TEMPLATES))]
    amode, fcount, _r = MODES[pick(mode, len(MODES))]
    lo, hi = P["seeds"]
    sd = lo + pick(seed, hi - lo)

    def run() -> Optional[str]:
        ref = _gen_in_child(ni, template, fcount, amode, 0, False)
        got = _gen_in_child(ni, template, fcount, amode, sd, True)
        if ref["rc"] != got["rc"]:
            return f"exit status {got['rc']} under PYTHONHASHSEED={sd}, {ref['rc']} under 0"
        if ref["rc"] != 0:
            return None
        if ref["files"] != got["files"]:
            changed = [fn for fn in ref["files"] if got["files"].get(fn) != ref["files"][fn]]
            return f"regenerating the unchanged input in a process with PYTHONHASHSEED={sd} (vs 0) is not byte-identical: {changed}"
        if got.get("check_rc", 0) != 0:
            return f"--check under PYTHONHASHSEED={sd} exits {got['check_rc']}: {got.get('check_out', '')[-160:]!r}"
        return None

    why = common.native(run)
    if why:
        _note(f"{template} async={amode} files={fcount} names={CASE_NAMES[ni]}: {why}")
    return verdict(why is None)


OBLIGATIONS = {"codegen_equiv": codegen_equiv, "codegen_corpus": codegen_corpus, "regen_hashseed": regen_hashseed}
PROBES = {"codegen_equiv": [{"x0": 2}, {"x0": 6}, {"x0": 7}, {"x0": 2, "x1": 2}, {"v0": 1, "x0": 2}, {"v0": 3, "x0": 3}, {"v0": 1, "x0": 6, "mode": 1}]}

PAIRS_QUICK = [(["shape"], ["g"]), (["shape"], ["i"]), (["shape"], ["u"]), (["tg"], ["af"]), (["rootp"], ["g"]), (["multi"], ["i"]),
               ([], ["h", "hp"]), (["aft"], ["i"])]
PAIRS_THOROUGH = PAIRS_QUICK + [(["shape", "tg"], ["g"]), (["shape", "multi"], ["i"]), (["shape", "dn", "hist"], ["u"]), (["rootp", "alw"], ["g"]),
                                (["shape"], ["h", "hp"]), (["shape"], ["g", "i"]), (["ent", "tm"], ["af", "i"]), (["shape", "inv"], ["u"]),
                                (["aft", "alw"], ["g"]), (["tg", "multi"], ["af"])]


def items(tier: str, seed: int) -> List[Dict[str, Any]]:
    quick = tier == "quick"
    out: List[Dict[str, Any]] = []
    for k, (vary, extra) in enumerate(PAIRS_QUICK if quick else PAIRS_THOROUGH):
        for tpl in range(len(TEMPLATES)):
            for base in ((k + tpl) % 2,) if quick or k >= len(PAIRS_QUICK) else (0, 1):
                out.append({"ob": "codegen_equiv", "params": {"vary": vary, "extra": extra, "base": base, "tpl": tpl},
                            "timeout": 600 if quick else 2400,
                            "label": f"codegen_equiv[{TEMPLATES[tpl]},{'+'.join(vary) or '-'}|{'+'.join(extra)},base={'on' if base else 'off'}]"})
    for lo in range(1, 5 if quick else 13, 2):
        out.append({"ob": "regen_hashseed", "params": {"seeds": [lo, lo + 2]}, "timeout": 600 if quick else 1500,
                    "label": f"regen_hashseed[PYTHONHASHSEED {lo}..{lo + 1} vs 0]"})
    n = len(corpus())
    step = 26 if quick else 13
    for tpl in range(len(TEMPLATES)):
        for lo in range(0, n, step):
            out.append({"ob": "codegen_corpus", "params": {"tpl": tpl, "range": [lo, min(n, lo + step)]}, "timeout": 600 if quick else 1800,
                        "label": f"codegen_corpus[{TEMPLATES[tpl]},exports {lo}..{min(n, lo + step) - 1}]"})
    return out
