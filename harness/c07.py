"""C07 - failure containment and transition atomicity.

  action_fault   fault twin: the machine FT is run twice on the same events,
                 once fault-free and once with a symbolic fault vector over the
                 call sites of user actions and built-in callbacks (the k-th
                 call raises iff bit k; weight <= W). Expected: the faulty
                 trace equals the twin's with exactly the remainder of each
                 faulted action list removed; same configurations, status and
                 later events; on_action_error notified once per fault.
  observer_fault a plugin hook, a subscriber or an emit listener raises at a
                 symbolic call index: nothing at all changes.
  abort          a declaration chosen by a symbolic index is broken (action
                 not implemented / coroutine action under the sync engine /
                 service not registered / unresolvable target): the failing
                 send() leaves the configuration exactly as before, every state
                 whose tasks were cancelled is re-armed, the error is raised
                 from send() (sync) or logged (async), and the following events
                 are processed like in a twin run that skipped the failing one.
"""
from __future__ import annotations

from typing import Any, Dict, List, Optional, Tuple

from vf import env, model
from vf.kf import gate, verdict
from vf.logic import make_logic
from harness import common
from harness.common import pick

PROPERTY = "C07"
P: Dict[str, Any] = {}
EXPLAIN: List[str] = []
EXPLANATION = (
    "C07 (containment/atomicity): CrossHair executes start()/send() of both engines on the fault machine FT with a "
    "symbolic fault vector indexed by call site (user actions, assign/pure callbacks, plugin hooks, subscribers, emit "
    "listeners) and a symbolic choice of a broken declaration; the oracle compares with a fault-free twin run."
)
NONTRIVIAL_RULE = "injected at least one fault / hit the broken declaration"
BOUNDS = {
    "action_fault": "machine FT; event sequence fixed per item (3-4 events); fault bits over the first 24 action call sites, weight <= W (item label); both engines",
    "observer_fault": "machine FT; event sequence fixed per item; one raising observer call (plugin hook / subscriber / emit listener) at a symbolic call index < 24",
    "abort": "machine FT; event sequence fixed per item; broken declaration = symbolic index over every marker action reached after start() x kind in {not implemented, coroutine under sync} plus unregistered service and unresolvable target variants; both engines",
}
ASSUMPTIONS = [
    "actions are pure markers, so skipping the remainder of a list cannot change later control flow",
    "faults are ordinary Exception subclasses (incl. the library's own error classes raised from inside a user action)",
    "timer/service arming is observed at the engine's _cancel_state_tasks/_schedule_state_tasks entry points",
]
WALL_BUDGET = {"quick": 900.0, "thorough": 3300.0}

_M: Dict[str, Any] = {}
CTL: Dict[str, Any] = {}


def _note(m: str) -> None:
    EXPLAIN.append(m)


def _lst(name: str, n: int) -> List[Any]:
    return [f"a:{name}.{i}" for i in range(n)]


def ft_config(bad_target: bool = False, with_missing_service: bool = False) -> Dict[str, Any]:
    from xstate_statemachine import actions as A

    cfg: Dict[str, Any] = {
        "id": "m", "initial": "A", "context": {"n": 0},
        "states": {
            "A": {
                "entry": _lst("A.en", 2), "exit": _lst("A.ex", 2),
                "after": {"1000": "B"},
                "on": {
                    "GO": {"target": "B", "actions": ["a:t.0", A.assign(_assign_cb), "a:t.2",
                                                      A.pure(_pure_cb), "a:t.4"]},
                    "PING": {"actions": _lst("ping", 2) + [A.emit("NOTE")]},
                    "GOP": {"target": "P", "actions": _lst("tp", 2)},
                    "BAD": {"target": "nowhere.at.all" if bad_target else "B", "actions": _lst("bad", 1)},
                },
            },
            "B": {
                "initial": "b1", "entry": _lst("B.en", 2), "exit": _lst("B.ex", 1),
                "on": {"BACK": {"target": "A", "actions": _lst("back", 2)}, "PING": {"actions": _lst("pingB", 1)}},
                "states": {
                    "b1": {"entry": _lst("b1.en", 2), "exit": _lst("b1.ex", 2), "on": {"NEXT": {"target": "b2", "actions": _lst("nx", 2)}}},
                    "b2": {"entry": _lst("b2.en", 2), "exit": _lst("b2.ex", 1), "after": {"500": "b1"}},
                },
            },
            "P": {
                "type": "parallel", "entry": _lst("P.en", 1), "exit": _lst("P.ex", 1),
                "on": {"BACK": {"target": "A", "actions": _lst("backP", 1)}},
                "states": {
                    "R1": {"initial": "x", "entry": _lst("R1.en", 1), "states": {"x": {"entry": _lst("x.en", 2), "exit": _lst("x.ex", 1), "after": {"300": "x2"}}, "x2": {}}},
                    "R2": {"initial": "y", "entry": _lst("R2.en", 1), "states": {"y": {"entry": _lst("y.en", 1), "exit": _lst("y.ex", 2)}}},
                },
            },
        },
    }
    if with_missing_service:
        cfg["states"]["B"]["states"]["b2"]["invoke"] = {"src": "nosuch", "onDone": "b1"}
    return cfg


def _assign_cb(a: Dict[str, Any]) -> Dict[str, Any]:
    CTL["site"]("cb:assign")
    return {"n": a["context"]["n"] + 1}


def _pure_cb(a: Dict[str, Any]) -> Any:
    CTL["site"]("cb:pure")
    return ["a:pure.0", "a:pure.1"]


class _Actions(dict):
    """logic.actions: 'a:<list>.<i>' -> marker closure (or None / coroutine
    function when that name is the broken declaration)."""

    def get(self, name: Any, default: Any = None) -> Any:  # type: ignore[override]
        if isinstance(name, str) and name.startswith("a:"):
            b = CTL.get("broken")
            if b is not None:
                kind = b(name)
                if kind == 1:
                    return default
                if kind == 2:
                    return _async_marker
            return _marker(name)
        return dict.get(self, name, default)

    def __contains__(self, name: Any) -> bool:
        return (isinstance(name, str) and name.startswith("a:")) or dict.__contains__(self, name)


async def _async_marker(i: Any, c: Any, e: Any, a: Any) -> None:
    return None


_MK: Dict[str, Any] = {}


def _marker(name: str) -> Any:
    f = _MK.get(name)
    if f is None:
        def f(interp: Any, ctx: Any, event: Any, ad: Any, _n: str = name) -> None:
            CTL["rec"].append(_n)
            CTL["site"](_n)

        _MK[name] = f
    return f


def _machine(name: str) -> Any:
    m = _M.get(name)
    if m is None:
        from xstate_statemachine import create_machine

        env.install()
        logic = make_logic()
        logic.actions = _Actions(logic.actions)
        m = create_machine(ft_config(bad_target=name == "FTbad", with_missing_service=name == "FTsvc"), logic=logic)
        env.pin_hashes(m)
        _M[name] = m
    return m


def set_params(p: Dict[str, Any]) -> None:
    global P
    P = p
    for n in ("FT", "FTbad", "FTsvc"):
        _machine(n)


class Fault(Exception):
    pass


class Sites:
    """Call-site indexed fault schedule (lazy: a bit forks only when its site
    is reached)."""

    def __init__(self, bits: Optional[List[Any]], weight: int, only_prefix: Optional[str] = None) -> None:
        self.bits = bits
        self.weight = weight
        self.k = 0
        self.injected: List[Tuple[int, str]] = []
        self.prefix = only_prefix
        self.trace: List[str] = []
        self.exc_sel: Any = 0

    def exc_class(self) -> Any:
        """Which exception type the faulting user code raises (symbolic): an
        ordinary one or one of the library's own error classes."""
        from xstate_statemachine.exceptions import ImplementationMissingError, InvalidConfigError, StateNotFoundError

        return [Fault, ImplementationMissingError, InvalidConfigError, KeyError][pick(self.exc_sel, 4)]

    def __call__(self, name: str) -> None:
        k = self.k
        self.k += 1
        self.trace.append(name)
        if self.bits is None or k >= len(self.bits) or len(self.injected) >= self.weight:
            return
        if self.bits[k]:
            self.injected.append((k, name))
            raise self.exc_class()(f"fault at site {k} ({name})")


class _Plugin:
    def __init__(self) -> None:
        self.errors: List[Any] = []
        self.sched: List[Any] = []

    def on_action_error(self, interp: Any, action_def: Any, exc: Any) -> None:
        self.errors.append((action_def.type, type(exc).__name__))

    def on_transition(self, *a: Any) -> None:
        return None

    def on_event_received(self, *a: Any) -> None:
        return None


def _wrap_tasks(it: Any, eng: int, calls: List[Any]) -> None:
    oc = it._cancel_state_tasks
    os_ = it._schedule_state_tasks
    # timers/services are observed, not started (no real threads / tasks)
    if eng == 0:
        def cancel(state: Any) -> Any:
            calls.append(("cancel", state.id))
    else:
        async def cancel(state: Any) -> Any:  # type: ignore[misc]
            calls.append(("cancel", state.id))

    def sched(state: Any) -> Any:
        calls.append(("sched", state.id))
        for invocation in state.invoke:
            if it.machine.logic.services.get(invocation.src) is None:
                from xstate_statemachine.exceptions import ImplementationMissingError

                raise ImplementationMissingError(f"Service '{invocation.src}' referenced by state '{state.id}' is not registered.")

    it._cancel_state_tasks = cancel
    it._schedule_state_tasks = sched


def _run(mname: str, eng: int, evs: List[str], skip: Optional[int] = None, observers: Optional[Any] = None) -> List[Any]:
    """Returns per step: dict(cfg, rec, raised, calls, ctx, status)."""
    from xstate_statemachine import Interpreter, SyncInterpreter
    from xstate_statemachine.exceptions import XStateMachineError

    m = _machine(mname)
    rec: List[str] = []
    CTL["rec"] = rec
    calls: List[Any] = []
    out: List[Any] = []
    plug = _Plugin()

    def snap(it: Any, raised: Optional[str]) -> None:
        out.append({"cfg": sorted(n.id for n in it._active_state_nodes), "rec": list(rec), "raised": raised,
                    "calls": list(calls), "ctx": dict(it.context), "status": it.status, "errors": list(plug.errors),
                    "depth": getattr(it, "_action_depth", 0)})
        del rec[:]
        del calls[:]
        del plug.errors[:]

    if eng == 0:
        it = SyncInterpreter(m)
        _wrap_tasks(it, eng, calls)
        it.use(plug)
        if observers:
            observers(it)
        it.start()
        snap(it, None)
        for i, e in enumerate(evs):
            if skip is not None and i == skip:
                out.append(None)
                continue
            raised = None
            try:
                it.send(e)
            except XStateMachineError as ex:
                raised = type(ex).__name__
            snap(it, raised)
        return out
    it = Interpreter(m)
    _wrap_tasks(it, eng, calls)
    it.use(plug)
    if observers:
        observers(it)

    async def go() -> None:
        await it.start()
        snap(it, None)
        for i, e in enumerate(evs):
            if skip is not None and i == skip:
                out.append(None)
                continue
            await it.send(e)
            await it._event_queue.join()
            snap(it, None)
        await it.stop()

    common.drive(go())
    return out


def _list_of(site: str) -> Tuple[str, int]:
    """(list occurrence key, nesting) of a call site. The transition list 't'
    holds t.0, cb:assign, t.2, cb:pure, [nested list pure.*], t.4."""
    if site in ("cb:assign", "cb:pure"):
        return ("t", 0)
    name = site[2:].rsplit(".", 1)[0]
    return (name, 1 if name == "pure" else 0)


def _expected_after_faults(twin_sites: List[str], injected: List[Tuple[int, str]]) -> List[str]:
    """Replays the fault-free run's call-site sequence against the fault
    schedule: a fault at the k-th executed site records nothing further from
    the REMAINDER OF THAT ACTION LIST OCCURRENCE (the nested list produced by
    pure() counts as part of 't' for a fault earlier in 't'; a fault inside the
    nested list skips only the rest of the nested list)."""
    inj = {k: n for k, n in injected}
    out: List[str] = []
    k = 0
    skip_list: Optional[str] = None      # list name whose remainder is being skipped
    skip_nested_only = False
    prev_list: Optional[str] = None
    prev_idx = -1
    for site in twin_sites:
        lst, nested = _list_of(site)
        idx = int(site.rsplit(".", 1)[1]) if site.startswith("a:") else (1 if site == "cb:assign" else 3)
        # a new occurrence starts when the (outer) list changes or its index does not increase
        outer = "t" if lst == "pure" else lst
        new_occurrence = prev_list is not None and (outer != prev_list or (lst != "pure" and idx <= prev_idx))
        if new_occurrence:
            skip_list = None
            skip_nested_only = False
        if lst != "pure":
            prev_list, prev_idx = outer, idx
        else:
            prev_list = outer
        if skip_list is not None:
            if skip_nested_only:
                if lst == "pure":
                    continue
                skip_list = None
                skip_nested_only = False
            elif outer == skip_list:
                continue
        # executed in the faulty run as site number k
        if site.startswith("a:"):
            out.append(site)
        if k in inj:
            skip_list = outer
            skip_nested_only = lst == "pure"
        k += 1
    return out


def action_fault(f0: bool, f1: bool, f2: bool, f3: bool, f4: bool, f5: bool, f6: bool, f7: bool, f8: bool, f9: bool,
                 f10: bool, f11: bool, f12: bool, f13: bool, f14: bool, f15: bool, f16: bool, f17: bool, f18: bool,
                 f19: bool, f20: bool, f21: bool, f22: bool, f23: bool, fk: int, hb: bool = False) -> bool:
    """
    pre: gate('action_fault', f0=f0)
    post: _
    """
    eng = P["eng"]
    evs = P["evs"]
    bits = [f0, f1, f2, f3, f4, f5, f6, f7, f8, f9, f10, f11, f12, f13, f14, f15, f16, f17, f18, f19, f20, f21, f22, f23]
    CTL["broken"] = None
    tw_sites = Sites(None, 0)
    CTL["site"] = tw_sites

    # two cooperating faults: the plugin that is told about a failing action may itself raise in on_action_error
    class Grumpy:
        def on_action_error(self, interp: Any, action_def: Any, exc: Any) -> None:
            if hb:
                raise Fault("on_action_error hook fault")

    def attach(it: Any) -> None:
        it.use(Grumpy())

    twin = _run("FT", eng, evs, observers=attach)
    sites = Sites(bits, P["W"])
    sites.exc_sel = fk
    CTL["site"] = sites
    got = _run("FT", eng, evs, observers=attach)
    # per-step comparison
    ok = True
    start_sites = 0
    for i in range(len(twin)):
        t, g = twin[i], got[i]
        if t["cfg"] != g["cfg"] or t["status"] != g["status"] or g["raised"]:
            _note(f"step {i} ({(['start()'] + evs)[i]}): configuration/status differs from the fault-free run or send() raised: {g['cfg']} {g['status']} raised={g['raised']} vs {t['cfg']} {t['status']}; faults={sites.injected}")
            ok = False
            break
    if ok:
        twin_all = [mk for s in twin for mk in s["rec"]]
        got_all = [mk for s in got for mk in s["rec"]]
        want = _expected_after_faults(tw_sites.trace, sites.injected)
        # a fault in a nested (pure) list: remainder of the nested list is skipped; whether the outer list continues is the
        # engine's documented behaviour ("skips only the remainder of that action list")
        if got_all != want:
            _note(f"faults {sites.injected}: markers {got_all}, expected {want}")
            ok = False
    if ok and any(s_["depth"] for s_ in got if s_):
        _note(f"faults {sites.injected}: the nested-action depth counter is {[s_['depth'] for s_ in got if s_]} at rest (a contained fault must not leave a residue: "
              "after MAX_ACTION_DEPTH such faults every later expansion would be refused)")
        ok = False
    if ok:
        nerr = sum(len(s["errors"]) for s in got)
        if nerr != len(sites.injected):
            _note(f"on_action_error notified {nerr} times for {len(sites.injected)} faults {sites.injected}")
            ok = False
    return verdict(ok, nontrivial=len(sites.injected) > 0)


def observer_fault(kind: int, at: int, form: int = 0) -> bool:
    """
    pre: 0 <= at < 24
    pre: gate('observer_fault', kind=kind, at=at)
    post: _
    """
    import functools

    lf = pick(form, 3)     # the raising subscriber / listener is a plain function, a functools.partial or a callable instance

    def shaped(fn: Any) -> Any:
        if lf == 0:
            return fn
        if lf == 1:
            return functools.partial(lambda _tag, x: fn(x), "tag")

        class Callable_:
            def __call__(self, x: Any) -> Any:
                return fn(x)
        return Callable_()

    eng = P["eng"]
    evs = P["evs"]
    CTL["broken"] = None
    CTL["site"] = Sites(None, 0)
    k = pick(kind, 3)
    counter = {"n": 0, "hit": False}

    def maybe() -> None:
        i = counter["n"]
        counter["n"] += 1
        if i == at:
            counter["hit"] = True
            raise Fault("observer fault")

    class Noisy:
        def __getattr__(self, name: str) -> Any:
            if name.startswith("on_"):
                def hook(*a: Any, **kw: Any) -> None:
                    maybe()
                return hook
            raise AttributeError(name)

    seen: Dict[str, List[Any]] = {"bad": [], "good": []}

    def healthy(it: Any, key: str) -> None:
        """A well-behaved observer of the same kind, registered AFTER the faulty one: it must see everything."""
        if k == 0:
            class Rec:
                def __getattr__(self, name: str) -> Any:
                    if name.startswith("on_"):
                        return lambda *a, **kw: seen[key].append(name)
                    raise AttributeError(name)
            it.use(Rec())
        elif k == 1:
            it.subscribe(lambda i: seen[key].append(sorted(i.current_state_ids)))
        else:
            it.on("NOTE", lambda e: seen[key].append(("NOTE", getattr(e, "type", None))))
            it.on("*", lambda e: seen[key].append(("*", getattr(e, "type", None))))

    def attach_bad(it: Any) -> None:
        if k == 0:
            it.use(Noisy())
        elif k == 1:
            it.subscribe(shaped(lambda _i: maybe()))
        else:
            it.on("NOTE", shaped(lambda _e: maybe()))
            it.on("*", shaped(lambda _e: maybe()))
        healthy(it, "bad")

    def attach_good(it: Any) -> None:
        # same observers, never raising: identical hook traffic
        if k == 0:
            class Quiet:
                def __getattr__(self, name: str) -> Any:
                    if name.startswith("on_"):
                        return lambda *a, **kw: None
                    raise AttributeError(name)
            it.use(Quiet())
        elif k == 1:
            it.subscribe(lambda _i: None)
        else:
            it.on("NOTE", lambda _e: None)
            it.on("*", lambda _e: None)
        healthy(it, "good")

    twin = _run("FT", eng, evs, observers=attach_good)
    got = _run("FT", eng, evs, observers=attach_bad)
    ok = True
    for i in range(len(twin)):
        for key in ("cfg", "rec", "raised", "ctx", "status", "calls"):
            if twin[i][key] != got[i][key]:
                _note(f"observer kind {k} raising at call {at}: step {i} {key}: {got[i][key]!r} vs fault-free {twin[i][key]!r}")
                ok = False
                break
        if not ok:
            break
    if ok and seen["bad"] != seen["good"]:
        _note(f"observer kind {k} raising at call {at}: a healthy observer registered after the faulty one saw {len(seen['bad'])} notifications, "
              f"{len(seen['good'])} in the fault-free run: {seen['bad'][:6]} vs {seen['good'][:6]}")
        ok = False
    return verdict(ok, nontrivial=counter["hit"])


def _reached_names(mname: str, eng: int, evs: List[str]) -> List[str]:
    key = f"names:{mname}:{eng}:{','.join(evs)}"
    v = _M.get(key)
    if v is None:
        CTL["broken"] = None
        CTL["site"] = Sites(None, 0)
        r = _run(mname, eng, evs)
        seen: List[str] = []
        at_start = set(r[0]["rec"])  # a declaration broken for start() makes start() itself fail: out of scope here
        for s in r[1:]:
            for mk in s["rec"]:
                # (actions nested in a pure()/choose() expansion fail inside the built-in's own
                #  containment - the "built-in action's callback" clause, covered by action_fault)
                if mk not in seen and not mk.startswith("a:pure.") and mk not in at_start:
                    seen.append(mk)
        v = seen
        _M[key] = v
    return v


def abort(which: int, kind: int) -> bool:
    """
    pre: gate('abort', which=which, kind=kind)
    post: _
    """
    eng = P["eng"]
    evs = P["evs"]
    mname = P.get("machine", "FT")
    names = _reached_names("FT", eng, evs)
    CTL["site"] = Sites(None, 0)
    if mname == "FT":
        bname = names[pick(which, len(names))]
        bkind = 1 + pick(kind, 2 if eng == 0 else 1)  # coroutine actions are legal under the async engine
        CTL["broken"] = lambda n: bkind if n == bname else 0
    else:
        bname = mname
        CTL["broken"] = None
    got = _run(mname, eng, evs)
    # first failing step
    fail = None
    for i in range(1, len(got)):
        g = got[i]
        if g["raised"] or (eng == 1 and _async_failed(got, i)):
            fail = i
            break
    if fail is None:
        if mname != "FT":
            _note(f"{mname}: the broken declaration was never reported: {[(s['cfg'], s['raised']) for s in got]}")
            return verdict(False)
        # broken action present but the engine did not abort? it must have been executed:
        _note(f"broken declaration {bname} (kind {bkind}) was reached but nothing was reported")
        return verdict(False)
    before = got[fail - 1]["cfg"]
    g = got[fail]
    ok = True
    if g["cfg"] != before:
        _note(f"aborted {evs[fail - 1]} (broken {bname}): configuration {g['cfg']} != configuration before {before}")
        ok = False
    if ok and eng == 0 and g["raised"] not in ("ImplementationMissingError", "NotSupportedError", "StateNotFoundError"):
        _note(f"aborted {evs[fail - 1]}: send() raised {g['raised']}")
        ok = False
    if ok:
        cancelled = [s for k_, s in g["calls"] if k_ == "cancel"]
        sched_after = []
        seen_cancel = False
        # every state whose tasks were cancelled and that is active again must be re-armed after the cancel
        for k_, s in g["calls"]:
            if k_ == "cancel":
                seen_cancel = True
            elif seen_cancel and k_ == "sched":
                sched_after.append(s)
        for s in cancelled:
            if s in g["cfg"] and sched_after.count(s) < 1:
                _note(f"aborted {evs[fail - 1]}: tasks of {s} were cancelled and never re-armed (calls={g['calls']})")
                ok = False
                break
    if ok:
        # the rest of the run equals a twin that skipped the failing event
        twin = _run(mname, eng, evs, skip=fail - 1)
        for i in range(fail + 1, len(got)):
            for key in ("cfg", "rec", "raised", "status"):
                if twin[i][key] != got[i][key]:
                    _note(f"after the aborted {evs[fail - 1]}: step {i} {key}: {got[i][key]!r} vs twin {twin[i][key]!r}")
                    ok = False
                    break
            if not ok:
                break
    return verdict(ok)


def _async_failed(got: List[Any], i: int) -> bool:
    """Async engine: a failed event is logged; detect it as 'an event that the
    fault-free twin would have acted on left the configuration unchanged'."""
    key = "twinfree"
    tw = CTL.get(key)
    if tw is None or tw[0] != (P["eng"], tuple(P["evs"])):
        saved = CTL.get("broken")
        CTL["broken"] = None
        t = _run("FT", P["eng"], P["evs"])
        CTL["broken"] = saved
        CTL[key] = tw = ((P["eng"], tuple(P["evs"])), t)
    t = tw[1]
    # the event did not do what it does in the fault-free run (the broken action's marker is missing)
    if got[i - 1]["cfg"] != t[i - 1]["cfg"]:
        return False
    return got[i]["rec"] != t[i]["rec"] or (got[i]["cfg"] == got[i - 1]["cfg"] and t[i]["cfg"] != t[i - 1]["cfg"])


OBLIGATIONS = {"action_fault": action_fault, "observer_fault": observer_fault, "abort": abort}
PROBES = {"abort": [{"which": 0, "kind": 0}, {"which": 3, "kind": 0}, {"which": 5, "kind": 1}, {"which": 7, "kind": 0}, {"which": 9, "kind": 0}],
          "action_fault": [{"f1": True}, {"f3": True}, {"f5": True, "f6": True}, {"f3": True, "fk": 1}, {"f4": True, "fk": 2}]}

SEQS = [["GO", "NEXT", "BACK", "PING"], ["GOP", "BACK", "GO", "PING"], ["PING", "GO", "PING", "BACK"]]


def items(tier: str, seed: int) -> List[Dict[str, Any]]:
    quick = tier == "quick"
    out: List[Dict[str, Any]] = []
    for si, evs in enumerate(SEQS):
        for eng in (0, 1):
            for w in ((1,) if quick else (1, 2)):
                if quick and eng == 1 and si == 2:
                    continue
                out.append({"ob": "action_fault", "params": {"eng": eng, "evs": evs, "W": w}, "timeout": 280 if quick else 1500,
                            "label": f"action_fault[{'sync' if eng == 0 else 'async'},{'-'.join(evs)},W={w}]"})
            out.append({"ob": "observer_fault", "params": {"eng": eng, "evs": evs}, "timeout": 280 if quick else 900,
                        "label": f"observer_fault[{'sync' if eng == 0 else 'async'},{'-'.join(evs)}]"})
            out.append({"ob": "abort", "params": {"eng": eng, "evs": evs}, "timeout": 280 if quick else 900,
                        "label": f"abort[{'sync' if eng == 0 else 'async'},{'-'.join(evs)}]"})
    for mname, evs in (("FTbad", ["PING", "BAD", "GO", "NEXT"]), ("FTsvc", ["GO", "NEXT", "PING", "BACK"])):
        for eng in (0, 1):
            out.append({"ob": "abort", "params": {"eng": eng, "evs": evs, "machine": mname}, "timeout": 120,
                        "label": f"abort[{'sync' if eng == 0 else 'async'},{mname}]"})
    return out
