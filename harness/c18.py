"""C18 - config front-end: spellings are equivalent, malformed input fails loudly.

  spelling_equiv   a rewrite vector of symbolic booleans/choices is applied to
                   a canonical config (string / object / one-element-list
                   transitions, always vs "", cond vs guard, single action vs
                   list vs object, "100" vs 100 delay keys, omitted initial of
                   a single-child compound): the parsed MachineNode has the
                   same deep fingerprint and the run gives the same trace.
  target_spelling  a target written as ANY string (symbolic, <= L chars) that
                   resolver.resolve_target_state resolves from the source to
                   the same node as the canonical spelling leads the engines to
                   the same configuration (sibling key, dotted path, leading
                   dot, '#machine.path', '#customId' and whatever else the
                   resolver accepts).
  target_total     resolve_target_state on a free symbolic string returns a
                   node of the machine or raises StateNotFoundError.
  malformed_loud   single-point corruption of a valid config (subtree index x
                   replacement of another JSON type, symbolic) then
                   create_machine -> start -> send(every event): every call
                   succeeds or raises an XStateMachineError subclass - never a
                   raw TypeError / AttributeError / KeyError / ValueError; an
                   unresolvable target is never accepted and then ignored.
  top_level        create_machine(x) for x of every JSON type.
"""
from __future__ import annotations

import copy
from typing import Any, Dict, List, Optional, Tuple

from vf import env, model, skeletons
from vf.kf import gate, verdict
from vf.logic import make_logic
from harness import common
from harness.common import Chooser, build_config, pick

PROPERTY = "C18"
P: Dict[str, Any] = {}
EXPLAIN: List[str] = []
EXPLANATION = (
    "C18 (config front-end): CrossHair executes create_machine / MachineNode / StateNode parsing (_normalize_transitions, "
    "_ensure_list, _parse_on, _parse_after, _parse_initial, _parse_invoke, GuardDefinition, ActionDefinition), "
    "resolver.resolve_target_state and the engines' multi-stage target resolution with symbolic spelling choices, "
    "symbolic target strings and symbolic single-point corruptions."
)
NONTRIVIAL_RULE = "parsed a rewritten/corrupted config and compared it with the canonical machine, or resolved a target string to a node"
BOUNDS = {
    "spelling_equiv": "canonical config CANON; the spelling choices of the feature groups named in the item label vary independently (all combinations within the groups, 2-4 variants per occurrence), the other groups keep the canonical spelling; trace over 4 events on the sync engine",
    "target_spelling": "skeleton, source and canonical target fixed per item; spelling = any str of <= L chars (item label) that resolve_target_state resolves from the source to the canonical node; both engines",
    "unresolvable_loud": "skeleton and source fixed per item; target = any str of <= L chars over a 6-letter alphabet (key letters of the skeleton + '.#'; the engines' hasattr() fallback makes CrossHair realise the string, so this part is an enumeration) containing '.' or '#' that none of the four standard attempts resolves and that is not a key of the root's states: must raise StateNotFoundError and leave the configuration unchanged; both engines",
    "target_total": "skeleton CUR8 (custom ids, dotted key, key equal to the machine id); every source node; target = any str of <= L chars",
    "malformed_loud": "valid config VALID (hierarchy, parallel, history, after, invoke, guards, actions, always, onDone, tags, meta); corruption = subtree index (all JSON subtrees) x 12 replacements of other JSON types (incl. the falsy ones False, 0, 0.0, '', [], {}); a wrong-typed target / guard / cond / src / initial must be rejected at creation; events {GO, NEXT, X, T}",
    "top_level": "x in 8 JSON-typed values",
    "ambiguous_ids": "7 configs with duplicate or ambiguous ids (flat dotted keys of 2 and 3 segments beside a sibling / beside the nested path they spell, at the top level and nested; duplicate custom ids; a custom id equal to another state's path id): each must be rejected by create_machine() with an XStateMachineError",
}
ASSUMPTIONS = [
    "corrupted configs are concrete after the symbolic (position, replacement) choice; parsing and running them happens natively inside the path (common.native) - sound because no symbolic value enters",
    "documented spellings are those listed in the property statement; target spellings are whatever resolver.resolve_target_state maps to the same node",
]
WALL_BUDGET = {"quick": 900.0, "thorough": 3300.0}


def _note(m: str) -> None:
    EXPLAIN.append(m)


def _tr(s: str) -> Dict[str, Any]:
    return {"type": "tr", "params": {"s": s}}


# ---------------------------------------------------------------------------
# fingerprint
# ---------------------------------------------------------------------------

def _gfp(g: Any) -> Any:
    if g is None:
        return None
    p = g.params
    return (g.type, repr(p) if not callable(p) else "<callable>", tuple(_gfp(c) for c in g.children), g.is_composite)


def _canon_params(p: Any) -> Any:
    """Action params with the two guard spellings of choose branches unified (the spelling is what the check varies;
    whether both spellings BEHAVE alike is decided by the traces)."""
    if isinstance(p, dict) and isinstance(p.get("conditions"), list):
        q = dict(p)
        q["conditions"] = [({("guard" if k == "cond" else k): v for k, v in c.items()} if isinstance(c, dict) else c) for c in p["conditions"]]
        return q
    return p


def _afp(acts: Any) -> Any:
    return tuple((a.type, repr(_canon_params(a.params))) for a in acts)


def _tfp(t: Any) -> Any:
    from xstate_statemachine.exceptions import StateNotFoundError
    from xstate_statemachine.resolver import resolve_target_state

    tgt = None
    if t.target_str:
        try:
            tgt = resolve_target_state(t.target_str, t.source).id
        except StateNotFoundError:
            tgt = "<unresolvable:" + str(t.target_str) + ">"
    return (t.event, tgt, _gfp(t.guard_def), _afp(t.actions), bool(t.reenter), bool(t.forbidden))


def fingerprint(m: Any) -> Any:
    out = []
    for n in model.doc_order(m):
        on = tuple(sorted((ev, tuple(_tfp(t) for t in ts)) for ev, ts in n.on.items()))
        after = tuple(sorted((str(k), tuple(_tfp(t) for t in ts)) for k, ts in n.after.items()))
        inv = tuple((i.id, i.src, repr(i.input), tuple(_tfp(t) for t in i.on_done), tuple(_tfp(t) for t in i.on_error)) for i in n.invoke)
        out.append((n.id, n.type, n.initial, n.history, n.target_str, on, after, inv,
                    _tfp(n.on_done) if n.on_done else None, _afp(n.entry), _afp(n.exit),
                    tuple(sorted(n.tags)), repr(n.meta), n.custom_id))
    return tuple(out)


# ---------------------------------------------------------------------------
# spelling equivalence
# ---------------------------------------------------------------------------

GROUPS = ["tform", "guardkey", "actions", "entry", "always", "delay", "initial"]


def canon(ch: Optional[Chooser] = None, vary: Optional[List[str]] = None) -> Dict[str, Any]:
    """The canonical config when ``ch`` is None; otherwise a re-spelling
    selected by the chooser for the feature groups in ``vary`` (the other
    groups keep their canonical spelling)."""

    def c(n: int, group: str) -> int:
        if ch is None or (vary is not None and group not in vary):
            return 0
        return ch.choose(n)

    def trans(target: str, actions: Optional[List[Any]] = None, guard: Optional[str] = None) -> Any:
        full: Dict[str, Any] = {"target": target}
        if actions:
            full["actions"] = actions
        if guard:
            full["guard" if c(2, "guardkey") == 0 else "cond"] = guard
        if not actions and not guard:
            k = c(4, "tform")
            return [target, {"target": target}, [target], [{"target": target}]][k]
        k = c(2, "tform")
        return full if k == 0 else [full]

    def acts(name: str) -> Any:
        k = c(3, "actions")
        return [[_tr(name)], _tr(name), [_tr(name)]][k]

    def chooser() -> Any:
        # a choose action whose branch guard is spelled 'guard' or 'cond' (g2 is false: the second branch must win)
        key = "guard" if c(2, "guardkey") == 0 else "cond"
        return {"type": "xstate.choose", "params": {"conditions": [{key: "g2", "actions": [_tr("choose.first")]}, {"actions": [_tr("choose.second")]}]}}

    def named_action() -> Any:
        k = c(4, "entry")
        return ["plain", ["plain"], {"type": "plain"}, [{"type": "plain"}]][k]

    delay_key: Any = 100 if c(2, "delay") == 0 else "100"
    A: Dict[str, Any] = {
        "on": {"GO": trans("B", acts("A.GO"), "g1"), "NEXT": trans("C")},
        "entry": named_action(),
    }
    always_list = [{"target": "C", "guard": "g2"}, {"target": "B", "guard": "g4"}]
    k = c(3, "always")
    if k == 0:
        A["always"] = always_list
    elif k == 1:
        A["on"][""] = always_list
    else:
        # both spellings at once: the v4 key first, the v5 key appended
        A["on"][""] = always_list[0]
        A["always"] = always_list[1]
    B: Dict[str, Any] = {
        "states": {"only": {"on": {"NEXT": trans("#m.C")}, "after": {delay_key: trans("#m.A")}}},
        "on": {"GO": trans("A")},
    }
    if c(2, "initial") == 0:
        B["initial"] = "only"
    # a compound whose only child is FINAL (completes at once), and one whose only real child has a history sibling:
    # both may omit 'initial' (exactly one non-history child)
    D: Dict[str, Any] = {"states": {"fin": {"type": "final"}}, "onDone": {"target": "#m.E"}}
    both = c(2, "initial")      # D and E share one choice (keeps the combined items small)
    if both == 0:
        D["initial"] = "fin"
    E: Dict[str, Any] = {"states": {"e1": {"on": {"NEXT": {"target": "#m.C"}}}, "hh": {"type": "history"}}}
    if both == 0:
        E["initial"] = "e1"
    C: Dict[str, Any] = {"on": {"GO": trans("A"), "NEXT": {"target": "D"}}, "entry": [chooser()]}
    cfg = {"id": "m", "initial": "A", "states": {"A": A, "B": B, "C": C, "D": D, "E": E}}
    return cfg


_M: Dict[str, Any] = {}


def _logic() -> Any:
    return make_logic(actions={"plain": lambda i, c, e, a: None},
                      guards={"g1": lambda c, e: True, "g2": lambda c, e: False, "g3": lambda c, e: True, "g4": lambda c, e: False},
                      services={"svc": lambda i, c, e: 1})


def _canon_fp() -> Any:
    v = _M.get("canon_fp")
    if v is None:
        from xstate_statemachine import create_machine

        env.install()
        m = create_machine(canon(None), logic=_logic())
        v = (fingerprint(m), _trace(m))
        _M["canon_fp"] = v
    return v


def _trace(m: Any) -> Any:
    from xstate_statemachine import SyncInterpreter

    it = SyncInterpreter(m)
    rec: List[Any] = []
    it.__dict__["_rec"] = rec
    it.start()
    out = [sorted(it.current_state_ids)]
    for e in ("GO", "NEXT", "GO", "GO", "NEXT", "NEXT", "NEXT", "GO"):
        it.send(e)
        out.append((sorted(it.current_state_ids), [(k, s) for k, s, _e in rec]))
    it.stop()
    return out


def spelling_equiv(s0: int, s1: int, s2: int, s3: int, s4: int, s5: int, s6: int, s7: int, s8: int, s9: int,
                   s10: int, s11: int, s12: int, s13: int) -> bool:
    """
    pre: gate('spelling_equiv', s0=s0)
    post: _
    """
    from xstate_statemachine import create_machine

    cfg = canon(Chooser([s0, s1, s2, s3, s4, s5, s6, s7, s8, s9, s10, s11, s12, s13]), P.get("vary"))
    want_fp, want_trace = _canon_fp()

    def build() -> Any:
        m = create_machine(cfg, logic=_logic())
        return fingerprint(m), _trace(m)

    fp, trace = common.native(build)
    if fp != want_fp:
        diff = [(a[0], [i for i in range(len(a)) if a[i] != b[i]]) for a, b in zip(fp, want_fp) if a != b]
        _note(f"re-spelled config parses to a different machine: differing (state, fields) {diff[:3]}; config={cfg!r}"[:900])
        return verdict(False)
    if trace != want_trace:
        _note(f"re-spelled config behaves differently: {trace} vs {want_trace}")
        return verdict(False)
    return verdict(True)


# ---------------------------------------------------------------------------
# target spellings
# ---------------------------------------------------------------------------

SK: Any = None


def set_params(p: Dict[str, Any]) -> None:
    global P, SK
    P = p
    if p.get("sid"):
        SK = common.get_skel(p)
    _canon_fp()
    _valid_machine()


def _resolves_to(t: str, src: Any, target: Any) -> bool:
    from xstate_statemachine.exceptions import StateNotFoundError
    from xstate_statemachine.resolver import resolve_target_state

    try:
        return resolve_target_state(t, src) is target
    except StateNotFoundError:
        return False


def target_spelling(eng: int, t: str, reenter: bool) -> bool:
    """
    pre: 0 <= eng <= 1
    pre: 0 < len(t) <= P['L']
    pre: gate('target_spelling', eng=eng, t=t)
    post: _
    """
    from xstate_statemachine import Interpreter, SyncInterpreter
    from xstate_statemachine.events import Event
    from xstate_statemachine.exceptions import XStateMachineError
    from xstate_statemachine.models import TransitionDefinition

    sk = SK
    src = sk.nodes[P["src"]]
    target = sk.nodes[P["tgt"]]
    if not _resolves_to(t, src, target):
        return verdict(True, nontrivial=False)
    # a configuration in which the source is active: default completion from the source
    active_ids = {n.id for n in model.complete_config([src], sk.machine)}
    results = []
    canon_sp = "#" + target.id
    for spelling in (t, canon_sp):
        it = (SyncInterpreter if eng == 0 else Interpreter)(sk.machine)
        it.status = "running"
        it._active_state_nodes = {n for n in sk.nodes if n.id in active_ids}
        tr = TransitionDefinition("E", {"target": spelling, "reenter": True if reenter else False}, source=src)
        try:
            if eng == 0:
                it._execute_transition_sync(tr, Event("E"))
            else:
                common.drive(it._execute_transition(tr, Event("E")))
            results.append(sorted(n.id for n in it._active_state_nodes))
        except XStateMachineError as e:
            results.append(type(e).__name__)
    if results[0] != results[1]:
        _note(f"target {t!r} and canonical {canon_sp!r} both denote {target.id} from {src.id} but lead to {results[0]} vs {results[1]}")
    return verdict(results[0] == results[1])


def _alpha_ok(t: str) -> bool:
    alpha = P["alphabet"]
    for ch in t:
        if ch not in alpha:
            return False
    return True


def unresolvable_loud(eng: int, t: str) -> bool:
    """
    pre: 0 <= eng <= 1
    pre: 0 < len(t) <= P['L']
    pre: _alpha_ok(t)
    pre: gate('unresolvable_loud', eng=eng, t=t)
    post: _
    """
    from xstate_statemachine import Interpreter, SyncInterpreter
    from xstate_statemachine.events import Event
    from xstate_statemachine.exceptions import StateNotFoundError, XStateMachineError
    from xstate_statemachine.models import TransitionDefinition
    from xstate_statemachine.resolver import resolve_target_state

    sk = SK
    src = sk.nodes[P["src"]]
    root = sk.machine
    # not resolvable by any of the engines' four standard attempts ...
    attempts = [(t, src)] + ([(t, src.parent)] if src.parent is not None else []) + [(t, root), (root.id + "." + t, root)]
    for tt, ref in attempts:
        try:
            resolve_target_state(tt, ref)
            return verdict(True, nontrivial=False)
        except StateNotFoundError:
            pass
    # ... and not a bare local name (the engines' documented last-resort lookups match a bare
    # key anywhere in the tree, or a key of the root's states mapping)
    if "." not in t and "#" not in t:
        return verdict(True, nontrivial=False)
    if t in root.states:
        return verdict(True, nontrivial=False)
    active_ids = {n.id for n in model.complete_config([src], root)}
    it = (SyncInterpreter if eng == 0 else Interpreter)(root)
    it.status = "running"
    it._active_state_nodes = {n for n in sk.nodes if n.id in active_ids}
    tr = TransitionDefinition("E", {"target": t}, source=src)
    try:
        if eng == 0:
            it._execute_transition_sync(tr, Event("E"))
        else:
            common.drive(it._execute_transition(tr, Event("E")))
    except StateNotFoundError:
        same = {n.id for n in it._active_state_nodes} == active_ids
        if not same:
            _note(f"unresolvable target {t!r}: StateNotFoundError raised but the configuration changed")
        return verdict(same)
    except XStateMachineError as e:
        _note(f"unresolvable target {t!r} raised {type(e).__name__}, expected StateNotFoundError")
        return verdict(False)
    _note(f"unresolvable target {t!r} from {src.id} was accepted and led to {sorted(n.id for n in it._active_state_nodes)}")
    return verdict(False)


def target_total(t: str) -> bool:
    """
    pre: len(t) <= P['L']
    pre: gate('target_total', t=t)
    post: _
    """
    from xstate_statemachine.exceptions import StateNotFoundError
    from xstate_statemachine.resolver import resolve_target_state

    sk = SK
    src = sk.nodes[P["src"]]
    try:
        n = resolve_target_state(t, src)
    except StateNotFoundError:
        return verdict(True, nontrivial=False)
    ok = any(n is x for x in sk.nodes)
    if not ok:
        _note(f"resolve_target_state({t!r}, {src.id}) returned {n!r}, not a state of the machine")
    return verdict(ok)


# ---------------------------------------------------------------------------
# malformed configs
# ---------------------------------------------------------------------------

def valid_config() -> Dict[str, Any]:
    return {
        "id": "m", "initial": "A", "context": {"n": 0},
        "states": {
            "A": {
                "tags": ["t1"], "meta": {"k": 1}, "description": "d",
                "entry": [_tr("A.in")], "exit": "plain",
                "on": {
                    "GO": [{"target": "B", "guard": "g1", "actions": [_tr("A.GO")]}, {"target": "C"}],
                    "NEXT": "C",
                    "T": {"target": "#m.B.only", "guard": {"type": "and", "children": ["g1", {"type": "not", "children": ["g2"]}]}},
                },
                "always": [{"target": "C", "guard": "g2"}],
                "after": {"100": {"target": "C"}},
            },
            "B": {
                "initial": "only",
                "onDone": {"target": "C", "actions": [_tr("B.done")]},
                "states": {
                    "only": {"on": {"NEXT": "fin"}, "invoke": {"src": "svc", "id": "s1", "onDone": {"target": "fin"}, "onError": "fin"}},
                    "fin": {"type": "final", "output": {"o": 1}},
                    "h": {"type": "history", "history": "deep", "target": "only"},
                },
                "on": {"X": "#m.P"},
            },
            "P": {
                "type": "parallel",
                "states": {
                    "R1": {"initial": "a", "states": {"a": {"on": {"X": "a2"}}, "a2": {}}},
                    "R2": {"initial": "c", "states": {"c": {"on": {"X": {"target": "c2", "cond": "g3"}}}, "c2": {}}},
                },
                "on": {"GO": "A"},
            },
            "C": {"on": {"GO": "A", "X": "P", "NEXT": "#m.B.h"}},
        },
    }


def subtrees(cfg: Any) -> List[Tuple[Any, ...]]:
    """Paths (tuples of keys/indices) of every JSON subtree below the root."""
    out: List[Tuple[Any, ...]] = []

    def walk(v: Any, path: Tuple[Any, ...]) -> None:
        if path:
            out.append(path)
        if isinstance(v, dict):
            for k in v:
                walk(v[k], path + (k,))
        elif isinstance(v, list):
            for i, x in enumerate(v):
                walk(x, path + (i,))

    walk(cfg, ())
    return out


REPLACEMENTS: List[Any] = [None, True, 5, "zz", "", [], [5], {}, {"zz": 5}, False, 0, 0.0]

# keys whose value names something (a state, a predicate, a service): a value of another JSON type has no possible
# "absent" reading, so accepting it silently means treating it as something else
_MUST_REJECT = ("target", "guard", "cond", "src", "initial")


def _must_reject(path: Tuple[Any, ...], cfg_parent: Any, repl: Any) -> bool:
    key = path[-1]
    if key not in _MUST_REJECT or repl is None or isinstance(repl, str):
        return False
    if key == "target" and isinstance(cfg_parent, dict) and cfg_parent.get("type") == "history":
        return False   # a history node's default target is a different construct (not covered by this rule)
    if key in ("guard", "cond") and isinstance(repl, dict) and isinstance(repl.get("type"), str):
        return False
    return True


def _valid_machine() -> Any:
    v = _M.get("valid")
    if v is None:
        from xstate_statemachine import create_machine

        cfg = valid_config()
        m = create_machine(cfg, logic=_logic())
        _M["valid"] = v = (cfg, subtrees(cfg), fingerprint(m))
    return v


def _type_name(v: Any) -> str:
    return "null" if v is None else type(v).__name__


def _corrupt_run(path: Tuple[Any, ...], repl: Any) -> Optional[str]:
    """Native: build + start + send everything; returns a complaint or None."""
    from xstate_statemachine import SyncInterpreter, create_machine
    from xstate_statemachine.exceptions import XStateMachineError

    cfg = valid_config()
    cur: Any = cfg
    for k in path[:-1]:
        cur = cur[k]
    old = cur[path[-1]]
    if type(old) is type(repl) and not isinstance(old, (dict, list)):
        return None  # same JSON type: not a corruption "of the wrong type"
    must = _must_reject(path, cur, repl)
    cur[path[-1]] = copy.deepcopy(repl)
    where = "/".join(str(k) for k in path)
    stage = "create_machine"
    try:
        m = create_machine(cfg, logic=_logic())
        if must:
            return (f"{where} := {repl!r} ({_type_name(old)} -> {_type_name(repl)}): create_machine() accepted a wrong-typed "
                    f"'{path[-1]}' without any error (silently treated as something else)")
        stage = "start"
        it = SyncInterpreter(m)
        it.start()
        for ev in ("GO", "NEXT", "X", "T", "GO", "X", "NEXT"):
            stage = f"send({ev})"
            try:
                it.send(ev)
            except XStateMachineError:
                pass
        stage = "stop"
        it.stop()
    except XStateMachineError:
        return None
    except (TypeError, AttributeError, KeyError, ValueError, IndexError) as e:
        return f"{where} := {repl!r} ({_type_name(old)} -> {_type_name(repl)}): {stage} raised raw {type(e).__name__}: {e}"
    return None


def malformed_loud(pos: int, rsel: int) -> bool:
    """
    pre: gate('malformed_loud', pos=pos, rsel=rsel)
    post: _
    """
    _cfg, paths, _fp = _valid_machine()
    lo, hi = P.get("range", [0, len(paths)])
    path = paths[lo + pick(pos, hi - lo)]
    repl = REPLACEMENTS[pick(rsel, len(REPLACEMENTS))]
    why = common.native(_corrupt_run, path, repl)
    if why:
        _note(why)
    return verdict(why is None)


AMBIGUOUS: List[Tuple[str, Dict[str, Any]]] = [
    ("sibling x + flat key 'x.y'", {"id": "m", "initial": "x", "states": {"x": {}, "x.y": {}}}),
    ("sibling x + flat key 'x.y.z'", {"id": "m", "initial": "x", "states": {"x": {}, "x.y.z": {}}}),
    ("nested x{y} + flat key 'x.y'", {"id": "m", "initial": "x", "states": {"x": {"initial": "y", "states": {"y": {}}}, "x.y": {}}}),
    ("nested x{y{z}} + flat key 'x.y.z'", {"id": "m", "initial": "x", "states": {"x": {"initial": "y", "states": {"y": {"initial": "z", "states": {"z": {}}}}}, "x.y.z": {}}}),
    ("two states declare the custom id 'k'", {"id": "m", "initial": "a", "states": {"a": {"id": "k"}, "b": {"id": "k"}}}),
    ("nested: q{x, 'x.y.z'}", {"id": "m", "initial": "q", "states": {"q": {"initial": "x", "states": {"x": {}, "x.y.z": {}}}}}),
    ("custom id of a equals the path id of b ('m.b')", {"id": "m", "initial": "c", "states": {"a": {"id": "m.b"}, "b": {}, "c": {"on": {"GO": "#m.b"}}}}),
]


def ambiguous_ids(which: int) -> bool:
    """
    pre: gate('ambiguous_ids', which=which)
    post: _
    """
    from xstate_statemachine import MachineLogic, create_machine
    from xstate_statemachine.exceptions import XStateMachineError

    name, cfg = AMBIGUOUS[pick(which, len(AMBIGUOUS))]
    why = None
    try:
        m = create_machine(copy.deepcopy(cfg), logic=MachineLogic())
        ids = [n.id for n in model.doc_order(m)] + [n.custom_id for n in model.doc_order(m) if getattr(n, "custom_id", None)]
        dup = sorted({i for i in ids if ids.count(i) > 1})
        why = f"{name}: create_machine() accepted it" + (f"; ids shared by several nodes: {dup}" if dup else "")
    except XStateMachineError:
        pass
    except (TypeError, AttributeError, KeyError, ValueError) as e:
        why = f"{name}: raw {type(e).__name__}: {e}"
    if why:
        _note(why)
    return verdict(why is None)


def kf_custom_id_equals_path(which: Any = 0, **_k: Any) -> bool:
    """Known finding C18-custom-id-shadows-path-id: AMBIGUOUS[6] (the last entry; pick() maps out-of-range values onto it)."""
    return not (0 <= which <= 5)


def top_level(which: int) -> bool:
    """
    pre: gate('top_level', which=which)
    post: _
    """
    from xstate_statemachine import create_machine
    from xstate_statemachine.exceptions import XStateMachineError

    values: List[Any] = [None, True, 5, "x", [], [{"id": "m"}], {}, {"id": "m"}, {"id": 5, "states": {}}, {"id": "m", "states": 5},
                         {"id": "", "states": {}}, {"states": {}}]
    x = values[pick(which, len(values))]
    try:
        common.native(create_machine, x, logic=_logic())
    except XStateMachineError:
        return verdict(True)
    except Exception as e:
        _note(f"create_machine({x!r}) raised raw {type(e).__name__}: {e}")
        return verdict(False)
    _note(f"create_machine({x!r}) was accepted")
    return verdict(False)


def kf_target_not_string(**a: Any) -> bool:
    return False


OBLIGATIONS = {"unresolvable_loud": unresolvable_loud, "spelling_equiv": spelling_equiv, "target_spelling": target_spelling, "target_total": target_total,
               "malformed_loud": malformed_loud, "top_level": top_level, "ambiguous_ids": ambiguous_ids}
PROBES = {"target_spelling": [{"t": "#m.B.x"}, {"t": "x"}, {"t": ".x"}],
          "unresolvable_loud": [{"t": "q.x"}, {"t": "#z.k"}, {"t": "#q.A"}, {"eng": 1, "t": "z.y"}, {"t": "q.s1"}, {"t": "#z.W"}]}


def _canon_target(src: Any, tgt: Any) -> str:
    return "#" + tgt.id


def items(tier: str, seed: int) -> List[Dict[str, Any]]:
    quick = tier == "quick"
    out: List[Dict[str, Any]] = []
    combos = [[g] for g in GROUPS] + [["guardkey", "actions", "entry"], ["always", "delay", "initial", "guardkey"], ["tform", "initial"]]
    if not quick:
        combos += [["tform", "guardkey", "always"], ["actions", "entry", "delay", "initial", "always"]]
    for vary in combos:
        out.append({"ob": "spelling_equiv", "params": {"vary": vary}, "timeout": 300 if quick else 1500,
                    "label": f"spelling_equiv[vary={'+'.join(vary)}]"})
    # target spellings on CUR8 (custom ids, dotted key, key == machine id) and CUR2/CUR9
    # (source index, target index) in document order of the skeleton
    pairs = {
        "CUR8": [(1, 7), (2, 6), (6, 2), (3, 1), (7, 3), (0, 7), (5, 1)],
        "CUR2": [(3, 4), (4, 6), (6, 3), (5, 2)],
        "CUR9": [(2, 3), (8, 10), (10, 1), (5, 6)],
    }
    L = 6 if quick else 8
    for sid, lst in pairs.items():
        for src, tgt in (lst[:3] if quick else lst):
            out.append({"ob": "target_spelling", "params": {"sid": sid, "spec": skeletons.CURATED[sid], "src": src, "tgt": tgt, "L": L},
                        "timeout": 240 if quick else 1200, "path_timeout": 40,
                        "label": f"target_spelling[{sid},{src}->{tgt},L={L}]"})
    n8 = 8
    for src in (range(n8) if not quick else (0, 1, 2, 5)):
        out.append({"ob": "target_total", "params": {"sid": "CUR8", "spec": skeletons.CURATED["CUR8"], "src": src, "L": 5 if quick else 7},
                    "timeout": 200 if quick else 1200, "path_timeout": 40, "label": f"target_total[CUR8,src={src}]"})
    for sid, src, alpha in (("CUR8", 1, "mAkx.#"), ("CUR8", 6, "mBAx.#"), ("CUR9", 8, "WZsy.#"), ("CUR9", 2, "Ws12.#")):
        Lu = 3 if quick else 4
        out.append({"ob": "unresolvable_loud", "params": {"sid": sid, "spec": skeletons.CURATED[sid], "src": src, "L": Lu, "alphabet": alpha},
                    "timeout": 240 if quick else 1500, "path_timeout": 40, "label": f"unresolvable_loud[{sid},src={src},L={Lu}]"})
    npaths = len(subtrees(valid_config()))
    step = 12
    for lo in range(0, npaths, step):
        out.append({"ob": "malformed_loud", "params": {"range": [lo, min(npaths, lo + step)]}, "timeout": 200,
                    "label": f"malformed_loud[subtrees {lo}-{min(npaths, lo + step) - 1}]"})
    out.append({"ob": "top_level", "params": {}, "timeout": 60, "label": "top_level"})
    out.append({"ob": "ambiguous_ids", "params": {}, "timeout": 60, "label": "ambiguous_ids"})
    return out
