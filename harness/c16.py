"""C16 - runs are deterministic: hash layout and engine do not matter.

  layout_independence  the determinism machine DT (3-region parallel state
      whose regions all have children called idle/busy, one nested compound,
      deep and shallow history of the parallel state, re-entry, a region-local
      and a broadcast event, context assignment) is run on a symbolic event
      sequence under a SYMBOLIC hash layout: the hash values of a group of K
      StateNodes are permuted by a symbolic Lehmer code, which (for the small
      tables involved) permutes the iteration order of every set[StateNode]
      the engine holds. Oracle: the full trace (ordered entry/exit/transition
      actions with their event types, configuration and context after every
      event) equals the trace of the identity layout on the sync engine - for
      both engines, i.e. neither the layout nor the engine is observable.
"""
from __future__ import annotations

import copy
from typing import Any, Dict, List, Optional, Tuple

from vf import env
from vf.kf import gate, verdict
from vf.logic import make_logic
from harness import common
from harness.common import pick

PROPERTY = "C16"
P: Dict[str, Any] = {}
EXPLAIN: List[str] = []
EXPLANATION = (
    "C16 (determinism): CrossHair executes send() of both engines (_select_transitions leaf ordering, exit-set ordering, "
    "_enter_states region order, _record_history / _resolve_history_target) on the determinism machine; the event "
    "sequence and the permutation of StateNode hash values (= iteration order of the engine's node sets) are symbolic."
)
NONTRIVIAL_RULE = "non-identity layout and at least one event that changed the configuration"
BOUNDS = {
    "run_isolation": "machine RI whose actions mutate nested context values in place; initial context in 5 forms (literal dict, factory building fresh values, factory spreading a shared defaults dict, factory returning one dict object every time, factory sharing one nested dict); two consecutive runs (fresh interpreters over one MachineNode) of the same 3 events out of {TICK, RETRY, RESET, PEEK}, each run on the sync or asyncio engine (symbolic): equal configurations, contexts and action lists after every event",
    "hashseed_independence": "machine DT in a child process per PYTHONHASHSEED value (symbolic, 1..16 quick / 1..64 thorough; reference seed 0), natural address-based StateNode hashing; 5 canned sequences of 5 events; sync engine, asyncio engine and the pure transition() API; traces must be equal across seeds and across the three APIs",
    "layout_independence": "machine DT (15 state nodes); event sequences of length L (item label) over 9 events; hash layout = symbolic permutation of a group of K nodes (item label; all K! permutations), other nodes keep document-order hashes; both engines",
}
ASSUMPTIONS = [
    "hashpin: StateNode.__hash__ returns a small distinct int per node; for distinct ints below the table size CPython iterates a set in ascending hash order, so permuting the ints permutes iteration order. Address-based hashing of a real run is one such layout",
    "hashseed_independence runs the machine natively in child processes (a process boundary cannot be traced); the solver only chooses the seed - the values 0..16 (64) are a sample of the seed space, not all of it",
    "generated identifiers (uuid actor ids, timer keys): DT spawns nothing; their independence is outside this obligation",
]
WALL_BUDGET = {"quick": 900.0, "thorough": 3000.0}

EVENTS = ["GO", "G1", "G3", "LEAVE", "BACK", "BACKS", "BACK2", "RE", "TICK"]
_REF: Dict[Tuple[str, ...], Any] = {}
_MACH: Dict[Tuple[int, ...], Any] = {}
_NODES: List[str] = []


def _note(m: str) -> None:
    EXPLAIN.append(m)


def _count(i: Any, ctx: Any, e: Any, a: Any) -> None:
    ctx["n"] = ctx.get("n", 0) * 3 + len(a.params["s"])


def _config() -> Dict[str, Any]:
    def tr(label: str, target: Optional[str] = None) -> Dict[str, Any]:
        d: Dict[str, Any] = {"actions": [{"type": "tr", "params": {"s": label}}, {"type": "count", "params": {"s": label}}]}
        if target is not None:
            d["target"] = target
        return d

    def region(name: str, nested: bool) -> Dict[str, Any]:
        busy: Dict[str, Any] = {"on": {"GO": tr(f"{name}.busy>idle", "idle")}}
        if nested:
            busy = {"initial": "x", "on": {"G3": tr(f"{name}.busy>idle", "idle")},
                    "states": {"x": {"on": {"GO": tr(f"{name}.x>y", "y")}}, "y": {"on": {"GO": tr(f"{name}.y>x", "x")}}}}
        on = {"GO": tr(f"{name}.idle>busy", "busy")}
        if name == "r1":
            on["G1"] = tr("r1.idle>busy/G1", "busy")
        if nested:
            on["G3"] = tr("r3.idle>busy/G3", "busy")
        return {"initial": "idle", "states": {"idle": {"on": on}, "busy": busy}}

    cfg = {
        "id": "d", "initial": "par", "context": {"n": 0},
        "states": {
            "par": {
                "type": "parallel",
                "on": {"LEAVE": tr("par>out", "out"), "RE": {**tr("par>par", "par"), "reenter": True}, "TICK": tr("par.tick")},
                "states": {
                    "r1": region("r1", False), "r2": region("r2", False), "r3": region("r3", True),
                    "h": {"type": "history", "history": "deep"},
                    "hs": {"type": "history", "history": "shallow"},
                },
            },
            "out": {"on": {"BACK": tr("out>h", "par.h"), "BACKS": tr("out>hs", "par.hs"), "BACK2": tr("out>par", "par")}},
        },
    }
    return common.mark(cfg)


def _machine(layout: Tuple[int, ...]) -> Any:
    m = _MACH.get(layout)
    if m is None:
        from xstate_statemachine import create_machine

        env.install()
        m = create_machine(copy.deepcopy(_config()), logic=make_logic(actions={"count": _count}))
        nodes = env.pin_hashes(m)
        if not _NODES:
            _NODES.extend(n.id for n in nodes)
        group = list(P.get("group", []))
        idx = [_NODES.index(g) for g in group]
        # node group[j] takes the hash slot of node group[layout[j]]
        for j, src in enumerate(layout):
            nodes[idx[j]].__dict__["_vh"] = idx[src] + 1
        _MACH[layout] = m
    return m


def set_params(p: Dict[str, Any]) -> None:
    global P
    P = p
    _MACH.clear()
    _REF.clear()
    k = len(p.get("group", []))
    _machine(tuple(range(k)))


def _trace(eng: int, layout: Tuple[int, ...], evs: List[str]) -> List[Any]:
    from xstate_statemachine import Interpreter, SyncInterpreter

    m = _machine(layout)
    out: List[Any] = []

    def snap(it: Any) -> None:
        rec = it.__dict__["_rec"]
        # the synthetic event of start() differs between the engines by design (no event exists yet): not compared
        out.append(([(k, s, getattr(e, "type", None) if out else None) for k, s, e in rec], sorted(n.id for n in it._active_state_nodes), dict(it.context)))
        rec.clear()

    if eng == 0:
        it = SyncInterpreter(m)
        it.__dict__["_rec"] = []
        it.start()
        snap(it)
        for e in evs:
            it.send(e)
            snap(it)
        it.stop()
        return out
    it = Interpreter(m)
    it.__dict__["_rec"] = []

    async def go() -> None:
        await it.start()
        snap(it)
        for e in evs:
            await it.send(e)
            await it._event_queue.join()
            snap(it)
        await it.stop()

    common.drive(go())
    return out


def _diff(a: List[Any], b: List[Any], evs: List[str]) -> Optional[str]:
    for i, (x, y) in enumerate(zip(a, b)):
        if x != y:
            step = "start()" if i == 0 else f"event #{i} {evs[i - 1]}"
            if x[0] != y[0]:
                return f"at {step}: actions {[(k, s) for k, s, _e in y[0]]} vs reference {[(k, s) for k, s, _e in x[0]]}" if [(k, s) for k, s, _e in x[0]] != [(k, s) for k, s, _e in y[0]] else f"at {step}: same actions, different event objects {y[0]} vs {x[0]}"
            if x[1] != y[1]:
                return f"at {step}: configuration {y[1]} vs reference {x[1]}"
            return f"at {step}: context {y[2]} vs reference {x[2]}"
    if len(a) != len(b):
        return f"trace lengths differ {len(b)} vs {len(a)}"
    return None


def lehmer(codes: List[Any], k: int) -> Tuple[int, ...]:
    pool = list(range(k))
    out = []
    for j in range(k - 1):
        out.append(pool.pop(pick(codes[j], len(pool))))
    out.append(pool[0])
    return tuple(out)


def layout_independence(p0: int, p1: int, p2: int, p3: int, p4: int, e0: int, e1: int, e2: int, e3: int) -> bool:
    """
    pre: gate('layout_independence', p0=p0, p1=p1, p2=p2, e0=e0, e1=e1)
    post: _
    """
    k = len(P["group"])
    layout = lehmer([p0, p1, p2, p3, p4], k)
    prefix = list(P.get("prefix", []))
    evs = prefix + [EVENTS[pick(e, len(EVENTS))] for e in [e0, e1, e2, e3][: P["L"] - len(prefix)]]
    key = tuple(evs)
    ref = _REF.get(key)
    if ref is None:
        ref = common.native(_trace, 0, tuple(range(k)), evs)
        _REF[key] = ref
    why = None
    for eng in (0, 1):
        got = _trace(eng, layout, evs)
        d = _diff(ref, got, evs)
        if d:
            why = f"{'sync' if eng == 0 else 'async'} engine, layout {dict(zip(P['group'], [P['group'][s] for s in layout]))}, events {evs}: {d}"
            break
    if why:
        _note(why)
    moved = any(ref[i][1] != ref[i + 1][1] or ref[i + 1][0] for i in range(len(ref) - 1))
    return verdict(why is None, nontrivial=moved and layout != tuple(range(k)))


# ---------------------------------------------------------------------------
# other processes / other PYTHONHASHSEED values (native child processes, solver-chosen seed)
# ---------------------------------------------------------------------------

SEQS = [["LEAVE", "BACK", "GO", "LEAVE", "BACKS"], ["GO", "G1", "LEAVE", "BACK", "GO"], ["G3", "GO", "RE", "LEAVE", "BACK2"],
        ["GO", "GO", "LEAVE", "BACKS", "TICK"], ["G1", "G3", "LEAVE", "BACK", "RE"]]
_PROBE: Dict[int, Any] = {}


def _probe(seed: int) -> Any:
    v = _PROBE.get(seed)
    if v is None:
        import json
        import os
        import subprocess
        import sys

        env_ = dict(os.environ)
        env_["PYTHONHASHSEED"] = str(seed)
        root = os.path.dirname(os.path.dirname(os.path.abspath(__file__)))
        r = subprocess.run([sys.executable, "-m", "vf.hashseed_probe", json.dumps(SEQS)], cwd=root, env=env_, capture_output=True, text=True, timeout=120)
        if r.returncode != 0:
            from vf.kf import HarnessLimit

            raise HarnessLimit("hashseed probe failed: " + r.stderr[-400:])
        v = json.loads(r.stdout)
        _PROBE[seed] = v
    return v


def hashseed_independence(seed: int) -> bool:
    """
    pre: gate('hashseed_independence', seed=seed)
    post: _
    """
    lo, hi = P["seeds"]
    sd = lo + pick(seed, hi - lo)

    def run() -> Optional[str]:
        ref = _probe(0)
        got = _probe(sd)
        for engine in ("sync", "async", "pure"):
            if got[engine] != ref[engine]:
                for si, (a, b) in enumerate(zip(ref[engine], got[engine])):
                    for k, (x, y) in enumerate(zip(a, b)):
                        if x != y:
                            return (f"{engine} API, PYTHONHASHSEED={sd} vs 0, sequence {SEQS[si]}, event #{k + 1} {SEQS[si][k]}: "
                                    f"{y[0]} vs {x[0]}" if x[0] != y[0] else f"{engine}: configuration/context {y[1:]} vs {x[1:]}")
                return f"{engine} traces differ"
        # the three APIs agree with one another inside the reference process as well (action order and configurations)
        for si in range(len(SEQS)):
            for k in range(len(SEQS[si])):
                s_ = [[a, b] for a, b, _e in ref["sync"][si][k][0]]
                a_ = [[a, b] for a, b, _e in ref["async"][si][k][0]]
                p_ = ref["pure"][si][k][0]
                if s_ != a_ or s_ != p_:
                    return f"APIs disagree in one process: sequence {SEQS[si]} event #{k + 1}: sync {s_} async {a_} pure {p_}"
        return None

    why = common.native(run)
    if why:
        _note(why)
    return verdict(why is None, nontrivial=sd != 0)


# ---------------------------------------------------------------------------
# run isolation: a second run in the same process does not see the first one
# ---------------------------------------------------------------------------

HOLD: Dict[str, Any] = {}
RI_EVENTS = ["TICK", "RETRY", "RESET", "PEEK"]
_RI: Dict[int, Any] = {}


def _ri_context(form: int) -> Any:
    """The initial context in the shapes the library accepts.  Forms 2-4 are factories whose RESULT shares mutable
    values with the previous call (a module-level defaults dict spread into a new dict; one dict object returned again
    and again; a fresh dict holding a shared nested dict): the library hands every interpreter a context of its own
    ("a fresh, deep-copied context"), so what one run appends in place must not be there when the next run starts."""
    if form == 0:
        return {"audit": [], "n": 0, "limits": {"max": 2, "seen": []}}
    if form == 1:
        return lambda arg: {"audit": [], "n": 0, "limits": {"max": 2, "seen": []}}
    if form == 2:
        return lambda arg: {**HOLD["defaults"], "n": 0}
    if form == 3:
        return lambda arg: HOLD["defaults"]
    return lambda arg: {"audit": [], "n": 0, "limits": HOLD["defaults"]["limits"]}


def _ri_machine(form: int) -> Any:
    m = _RI.get(form)
    if m is None:
        from xstate_statemachine import create_machine

        env.install()

        def audit(i: Any, ctx: Any, e: Any, a: Any) -> None:
            ctx["audit"].append(e.type)              # in place, on purpose
            ctx["limits"]["seen"].append(len(ctx["audit"]))
            ctx["n"] = ctx.get("n", 0) + 1

        def wipe(i: Any, ctx: Any, e: Any, a: Any) -> None:
            del ctx["audit"][:]

        def room(ctx: Any, e: Any) -> bool:
            return len(ctx["audit"]) < ctx["limits"]["max"] + 1

        cfg = {
            "id": "ri", "initial": "open", "context": _ri_context(form),
            "states": {
                "open": {"on": {"TICK": [{"guard": "room", "actions": ["audit"]}, {"target": "full", "actions": ["audit"]}],
                                "RETRY": {"target": "open", "reenter": True, "actions": ["audit"]}, "RESET": {"actions": ["wipe"]},
                                "PEEK": {"actions": [{"type": "en", "params": {"s": "peek"}}]}}},
                "full": {"entry": [{"type": "en", "params": {"s": "ri.full"}}], "on": {"RESET": {"target": "open", "actions": ["wipe"]}, "TICK": {"actions": ["audit"]}}},
            },
        }
        m = create_machine(cfg, logic=make_logic(actions={"audit": audit, "wipe": wipe}, guards={"room": room}))
        env.pin_hashes(m)
        _RI[form] = m
    return m


def _ri_trace(eng: int, m: Any, evs: List[str]) -> List[Any]:
    from xstate_statemachine import Interpreter, SyncInterpreter

    out: List[Any] = []

    def snap(it: Any) -> None:
        out.append((sorted(n.id for n in it._active_state_nodes), copy.deepcopy(dict(it.context)), [(k, s) for k, s, _e in it.__dict__["_rec"]]))
        it.__dict__["_rec"].clear()

    if eng == 0:
        it = SyncInterpreter(m)
        it.__dict__["_rec"] = []
        it.start()
        snap(it)
        for e in evs:
            it.send(e)
            snap(it)
        it.stop()
        return out
    it = Interpreter(m)
    it.__dict__["_rec"] = []

    async def go() -> None:
        await it.start()
        snap(it)
        for e in evs:
            await it.send(e)
            await it._event_queue.join()
            snap(it)
        await it.stop()

    common.drive(go())
    return out


def run_isolation(form: int, eng1: int, eng2: int, e0: int, e1: int, e2: int) -> bool:
    """
    pre: gate('run_isolation', form=form)
    post: _
    """
    f = pick(form, 5)
    g1 = pick(eng1, 2)
    g2 = pick(eng2, 2)
    evs = [RI_EVENTS[pick(e, len(RI_EVENTS))] for e in (e0, e1, e2)]
    HOLD["defaults"] = {"audit": [], "limits": {"max": 2, "seen": []}}
    m = _ri_machine(f)
    first = _ri_trace(g1, m, evs)
    second = _ri_trace(g2, m, evs)
    ok = first == second
    if not ok:
        for k, (a, b) in enumerate(zip(first, second)):
            if a != b:
                _note(f"context form {f}, events {evs}: run 1 ({'sync' if g1 == 0 else 'async'}) and run 2 ({'sync' if g2 == 0 else 'async'}) "
                      f"of the same machine in one process differ at step {k} ({'start' if k == 0 else evs[k - 1]}): {a} vs {b}")
                break
    return verdict(ok, nontrivial=any(e in ("TICK", "RETRY") for e in evs))


OBLIGATIONS = {"layout_independence": layout_independence, "hashseed_independence": hashseed_independence, "run_isolation": run_isolation}
PROBES = {"layout_independence": [{"p0": 1, "e0": 3, "e1": 4}, {"p0": 2, "p1": 1, "e0": 0, "e1": 3, "e2": 4}, {"p0": 1, "e0": 3, "e1": 5}, {"p0": 3, "p1": 0, "e0": 0, "e1": 7}]}

GROUPS = {
    "idle": ["d.par.r1.idle", "d.par.r2.idle", "d.par.r3.idle", "d.par.r3.busy.x"],
    "busy": ["d.par.r1.busy", "d.par.r2.busy", "d.par.r3.busy", "d.par.r3.busy.y"],
    "regions": ["d.par.r1", "d.par.r2", "d.par.r3", "d.par"],
    "mixed": ["d.par.r1", "d.par.r1.idle", "d.par.r2.busy", "d.par.r3.busy.x"],
    "leaves5": ["d.par.r1.idle", "d.par.r2.idle", "d.par.r3.idle", "d.par.r1.busy", "d.par.r2.busy"],
    "deep5": ["d.par.r3", "d.par.r3.busy", "d.par.r3.busy.x", "d.par.r1.idle", "d.par.r2.idle"],
    "all6": ["d.par.r1.idle", "d.par.r2.idle", "d.par.r3.idle", "d.par.r1", "d.par.r2", "d.par.r3"],
}


def items(tier: str, seed: int) -> List[Dict[str, Any]]:
    quick = tier == "quick"
    out: List[Dict[str, Any]] = []
    if quick:
        for g in ("idle", "regions", "mixed"):
            for first in EVENTS:
                out.append({"ob": "layout_independence", "params": {"group": GROUPS[g], "prefix": [first], "L": 3}, "timeout": 400,
                            "label": f"layout_independence[{g},K=4,{first}+2]"})
    else:
        # everything the quick tier has ...
        for g in ("idle", "regions", "mixed", "busy"):
            for first in EVENTS:
                out.append({"ob": "layout_independence", "params": {"group": GROUPS[g], "prefix": [first], "L": 3}, "timeout": 600,
                            "label": f"layout_independence[{g},K=4,{first}+2]"})
        # ... length 4 behind the two events that set up a history restore ...
        for g in ("idle", "regions", "mixed"):
            for first in ("LEAVE", "GO"):
                for second in (EVENTS if first == "LEAVE" else ("LEAVE", "G3")):
                    out.append({"ob": "layout_independence", "params": {"group": GROUPS[g], "prefix": [first, second], "L": 4}, "timeout": 900,
                                "label": f"layout_independence[{g},K=4,{first},{second}+2]"})
        # ... and five permuted nodes at length 3
        for g in ("leaves5", "deep5"):
            for first in ("LEAVE", "BACK"):
                out.append({"ob": "layout_independence", "params": {"group": GROUPS[g], "prefix": [first], "L": 3}, "timeout": 1300,
                            "label": f"layout_independence[{g},K=5,{first}+2]"})
    out.append({"ob": "run_isolation", "params": {"group": []}, "timeout": 300, "label": "run_isolation[5 context forms x 2x2 engines x 3 events]"})
    for lo in range(0, 16 if quick else 64, 4):
        out.append({"ob": "hashseed_independence", "params": {"group": [], "seeds": [lo + 1, lo + 5]}, "timeout": 300,
                    "label": f"hashseed_independence[PYTHONHASHSEED {lo + 1}..{lo + 4}]"})
    return out
