"""C02 - selection: deepest handler, first enabled candidate, once per region;
unhandled events are perfect no-ops; can() predicts without side effects.

  select_diff   send(<event>) on a *wired* skeleton from an arbitrary legal
                configuration, guards symbolic (true / false / raising, read
                lazily): the transitions that fire are exactly the reference
                nominees (minus those whose source an earlier winner exited),
                in order, each guard evaluated at most once per pass; with no
                nominee nothing at all changes; can(e) <=> a nominee exists and
                changes nothing.

Wiring (deterministic, shape dependent):
  E0  every state: one targetless guarded candidate (actions only)
  E3  every leaf: two guarded targetless candidates, then an unguarded one
  E1  every state: one guarded candidate targeting its next sibling (cyclic;
      itself with reenter when it has no sibling)
  E2  every atomic leaf: one guarded candidate targeting the LAST top-level
      state (leaves a parallel ancestor, so later winners may become stale);
      every compound/parallel state: an unguarded targetless fallback
  E5  every leaf: one guarded EMPTY candidate (no target, no actions: it absorbs
      the event); every compound/parallel state: an unguarded targetless
      fallback - the empty nominee must shadow it, and can() must report it
  E6  as E3 with the guards spelled with the v4 key 'cond' (a non-last guarded
      candidate spelled 'cond' is as guarded as one spelled 'guard')
  U   handled nowhere
"""
from __future__ import annotations

import copy
from typing import Any, Dict, List, Optional, Tuple

from vf import env, model, skeletons
from vf.kf import gate, verdict
from vf.logic import make_logic
from harness import common
from harness.common import Chooser, build_config, pick

PROPERTY = "C02"
P: Dict[str, Any] = {}
EXPLAIN: List[str] = []
EXPLANATION = (
    "C02 (selection): CrossHair executes send()/_process_event/_select_transitions/_collect_eligible_transitions/"
    "_is_guard_satisfied/can() of both engines on wired skeleton machines from a constructed legal configuration; "
    "configuration choices and every guard outcome are symbolic; the oracle is an independent reference selection."
)
NONTRIVIAL_RULE = "had at least one nominee (a transition fired) or exercised the no-op clause on an event handled by no enabled candidate"
BOUNDS = {
    "select_diff": "wired skeleton, engine and event fixed per item; every legal configuration (<=6 active compound choices); guard outcomes: every guard instance evaluated on a path has its own symbolic outcome (the first evaluated one three-valued true/false/raise, up to 10 further booleans, then shared), consumed lazily",
}
ASSUMPTIONS = [
    "pre-state configuration constructed directly (arbitrary legal configuration, reachable through SET/GOTO driver events, see C01)",
    "guards are pure (no side effects on context), as the reference selection assumes",
    "async engine runs on the virtual-time loop vf/vloop.VLoop",
]
WALL_BUDGET = {"quick": 900.0, "thorough": 3300.0}

W: Any = None  # wired skeleton for the current item


def _note(m: str) -> None:
    EXPLAIN.append(m)


def wire(cfg: Dict[str, Any]) -> Dict[str, Any]:
    cfg = copy.deepcopy(cfg)
    top = [k for k, v in cfg["states"].items() if v.get("type") != "history"]
    far = "#" + cfg["id"] + "." + top[-1] if top else None
    leafno = [0]

    def walk(c: Dict[str, Any], path: str, siblings: List[str], key: str) -> None:
        if c.get("type") == "history":
            return
        on = c.setdefault("on", {})
        on["E0"] = [
            {"guard": f"g|{path}|E0|0", "actions": [{"type": "tr", "params": {"s": f"{path}|E0|0"}}]},
        ]
        if not c.get("states"):
            on["E3"] = [
                {"guard": f"g|{path}|E3|0", "actions": [{"type": "tr", "params": {"s": f"{path}|E3|0"}}]},
                {"guard": f"g|{path}|E3|1", "actions": [{"type": "tr", "params": {"s": f"{path}|E3|1"}}]},
                {"actions": [{"type": "tr", "params": {"s": f"{path}|E3|2"}}]},
            ]
        if not c.get("states"):
            on["E5"] = [{"guard": f"g|{path}|E5|0"}]
            on["E6"] = [
                {"cond": f"g|{path}|E6|0", "actions": [{"type": "tr", "params": {"s": f"{path}|E6|0"}}]},
                {"cond": f"g|{path}|E6|1", "actions": [{"type": "tr", "params": {"s": f"{path}|E6|1"}}]},
                {"actions": [{"type": "tr", "params": {"s": f"{path}|E6|2"}}]},
            ]
        else:
            on["E5"] = [{"actions": [{"type": "tr", "params": {"s": f"{path}|E5|0"}}]}]
        if siblings:
            nxt = siblings[(siblings.index(key) + 1) % len(siblings)]
            t: Dict[str, Any] = {"target": nxt, "guard": f"g|{path}|E1|0",
                                 "actions": [{"type": "tr", "params": {"s": f"{path}|E1|0"}}]}
            if nxt == key:
                t["reenter"] = True
            if path != cfg["id"] and "." not in nxt:
                # sibling by key: resolved relative to the parent ('.key')
                t["target"] = "." + nxt
                on["E1"] = [t]
        kids = c.get("states", {})
        if not kids and c.get("type") != "final" and far is not None:
            # E4: every second leaf (document order) leaves for the far top-level state, the others move to a sibling - so
            # one event can make one region leave a parallel state while another region transitions inside it
            leafno[0] += 1
            if leafno[0] % 2 == 1 or not siblings or "." in siblings[(siblings.index(key) + 1) % len(siblings)]:
                on["E4"] = [{"target": far, "guard": f"g|{path}|E4|0", "actions": [{"type": "tr", "params": {"s": f"{path}|E4|0"}}]}]
            else:
                nx = siblings[(siblings.index(key) + 1) % len(siblings)]
                on["E4"] = [{"target": "." + nx, "guard": f"g|{path}|E4|0", "actions": [{"type": "tr", "params": {"s": f"{path}|E4|0"}}]}]
        if not kids and c.get("type") != "final" and far is not None:
            on["E2"] = [{"target": far, "guard": f"g|{path}|E2|0", "actions": [{"type": "tr", "params": {"s": f"{path}|E2|0"}}]}]
        elif kids:
            on["E2"] = [{"actions": [{"type": "tr", "params": {"s": f"{path}|E2|0"}}]}]
        real = [k for k, v in kids.items() if v.get("type") != "history"]
        for k, v in kids.items():
            walk(v, f"{path}.{k}", real, k)

    walk(cfg, cfg["id"], [], cfg["id"])
    return cfg


GV: Dict[str, Any] = {}
GCALLS: List[str] = []


class _Guards(dict):
    """logic.guards: every name 'g|...' maps to a closure reading the lazy
    symbolic valuation."""

    def get(self, name: Any, default: Any = None) -> Any:  # type: ignore[override]
        if isinstance(name, str) and name.startswith("g|"):
            return _mk_guard(name)
        return default

    def __contains__(self, name: Any) -> bool:
        return isinstance(name, str) and name.startswith("g|")

    def __getitem__(self, name: Any) -> Any:
        g = self.get(name)
        if g is None:
            raise KeyError(name)
        return g


_GCACHE: Dict[str, Any] = {}


def _mk_guard(name: str) -> Any:
    g = _GCACHE.get(name)
    if g is None:
        def g(ctx: Any, event: Any, _n: str = name) -> bool:
            GCALLS.append(_n)
            v = GV["fn"](_n)
            if v == 2:
                raise ValueError("guard raises")
            return v == 1

        _GCACHE[name] = g
    return g


class Wired:
    def __init__(self, params: Dict[str, Any]) -> None:
        from xstate_statemachine import create_machine

        env.install()
        spec = common._detuple(params.get("spec") or skeletons.CURATED[params["sid"]])
        self.cfg = wire(skeletons.machine_config(spec))
        logic = make_logic()
        logic.guards = _Guards()
        self.machine = create_machine(self.cfg, logic=logic)
        self.nodes = env.pin_hashes(self.machine)
        self.index = {n.id: i for i, n in enumerate(self.nodes)}
        # the reference selection below reads the candidate lists of the PARSED machine; make sure the front end kept
        # every declared candidate, in declaration order, with its guard - whichever key ('guard' / 'cond') spelled it
        self.front_end_error: Optional[str] = None
        by_id = {n.id: n for n in self.nodes}

        def declared(c: Dict[str, Any], path: str) -> None:
            if c.get("type") == "history":
                return
            node = by_id.get(path)
            for ev, lst in (c.get("on") or {}).items():
                want = [((t.get("actions") or [{}])[0].get("params", {}).get("s"), t.get("guard", t.get("cond"))) for t in lst]
                got = [((t.actions[0].params or {}).get("s") if t.actions else None, t.guard_def.type if t.guard_def is not None else None)
                       for t in (node.on.get(ev, []) if node is not None else [])]
                if want != got and self.front_end_error is None:
                    self.front_end_error = f"state {path} event {ev}: declared candidates (marker, guard) {want}, parsed machine has {got}"
            for k, v in (c.get("states") or {}).items():
                declared(v, f"{path}.{k}")

        declared(self.cfg, self.cfg["id"])
        self.gindex: Dict[str, int] = {}
        for n in self.nodes:
            for ev, ts in n.on.items():
                for t in ts:
                    if t.guard_def is not None:
                        self.gindex[t.guard_def.type] = len(self.gindex)


_WIRED: Dict[str, Wired] = {}


def set_params(p: Dict[str, Any]) -> None:
    global P, W
    import json

    P = p
    key = p["sid"] + json.dumps(p.get("spec"), sort_keys=True, default=str)
    W = _WIRED.get(key)
    if W is None:
        W = Wired(p)
        _WIRED[key] = W


def _guard_val(bools: List[Any], tri: Any) -> Any:
    """Lazy valuation: the k-th distinct guard evaluated on this path reads the
    k-th symbolic variable (the first one is three-valued: true/false/raise),
    so every guard the engine evaluates is independent of the others."""
    cache: Dict[str, int] = {}

    def fn(name: str) -> int:
        if name in cache:
            return cache[name]
        k = len(cache)
        if k == 0:
            v = pick(tri, 3)
        else:
            v = 1 if bools[(k - 1) % len(bools)] else 0
        cache[name] = v
        return v

    fn.cache = cache  # type: ignore[attr-defined]
    return fn


def _nominees(active: List[Any], ev: str, gfn: Any) -> List[Any]:
    """Reference selection (from the property statement)."""
    leaves = [n for n in active if n.type in ("atomic", "final")]
    leaves.sort(key=lambda n: (-_depth(n), n.id))
    out: List[Any] = []
    for leaf in leaves:
        cur = leaf
        nominee = None
        while cur is not None and nominee is None:
            for t in cur.on.get(ev, []):
                if t.guard_def is None or gfn(t.guard_def.type) == 1:
                    nominee = t
                    break
            cur = cur.parent
        if nominee is not None and not any(nominee is x for x in out):
            out.append(nominee)
    out.sort(key=lambda t: -_depth(t.source))
    return out


def _depth(n: Any) -> int:
    d = 0
    while n.parent is not None:
        d += 1
        n = n.parent
    return d


def _marker(t: Any) -> str:
    if not t.actions:
        return f"<empty {t.source.id}|{t.event}>"      # an absorbing candidate: selected, runs nothing
    return t.actions[0].params["s"]


class _Hook:
    def __init__(self) -> None:
        self.trans: List[Tuple[str, List[str], List[str]]] = []

    def on_transition(self, interp: Any, frm: Any, to: Any, transition: Any) -> None:
        if transition.actions:
            self.trans.append((_marker(transition), sorted(n.id for n in frm), sorted(n.id for n in to)))

    def on_event_received(self, interp: Any, event: Any) -> None:
        return None


def select_diff(c0: int, c1: int, c2: int, c3: int, c4: int, c5: int, tri: int, b0: bool, b1: bool, b2: bool, b3: bool,
                b4: bool, b5: bool, b6: bool, b7: bool, b8: bool, b9: bool) -> bool:
    """
    pre: gate('select_diff', c0=c0, c1=c1, c2=c2, c3=c3, c4=c4, c5=c5)
    post: _
    """
    from xstate_statemachine import Interpreter, SyncInterpreter
    from xstate_statemachine.events import Event

    eng = P["eng"]
    evname = P["event"]
    w = W
    if w.front_end_error:
        _note("the parsed machine does not carry the declared candidate lists: " + w.front_end_error)
        return verdict(False)
    active = build_config(w.machine, Chooser([c0, c1, c2, c3, c4, c5]))
    gfn = _guard_val([b0, b1, b2, b3, b4, b5, b6, b7, b8, b9], tri)
    GV["fn"] = gfn
    del GCALLS[:]
    it = (SyncInterpreter if eng == 0 else Interpreter)(w.machine)
    it.status = "running"
    rec: List[Any] = []
    it.__dict__["_rec"] = rec
    it._active_state_nodes = set(active)
    it.context["probe"] = {"k": 1}
    hook = _Hook()
    it.use(hook)
    hist_before = dict(it._history)
    ctx_before = copy.deepcopy(it.context)
    pre_ids = sorted(n.id for n in active)

    # can() first: prediction without side effects
    can = it.can(evname)
    if rec or sorted(n.id for n in it._active_state_nodes) != pre_ids or it.context != ctx_before:
        _note("can() changed the interpreter")
        return verdict(False)
    del GCALLS[:]
    ev = Event(evname)
    if eng == 0:
        it.send(ev)
        queue_empty = len(it._event_queue) == 0
    else:
        async def go() -> None:
            import asyncio

            it._event_loop_task = asyncio.ensure_future(it._run_event_loop())
            await it.send(ev)
            await it._event_queue.join()
            it._event_loop_task.cancel()
            try:
                await it._event_loop_task
            except BaseException:
                pass

        common.drive(go())
        queue_empty = it._event_queue.empty()
    want = _nominees(active, evname, gfn)
    fired = [r[1] for r in rec if r[0] == "tr"]
    # expected firing list with the stale-source rule, following the observed configurations
    cur_ids = set(pre_ids)
    expect: List[str] = []
    hooks = list(hook.trans)
    hi = 0
    for t in want:
        if len(want) > 1 and t.source.id not in cur_ids:
            continue
        if not t.actions:
            continue            # an empty nominee fires nothing observable; it shadows its ancestors' handlers (not in `want`)
        expect.append(_marker(t))
        while hi < len(hooks) and hooks[hi][0] != _marker(t):
            hi += 1
        if hi < len(hooks):
            cur_ids = set(hooks[hi][2])
            hi += 1
    ok = True
    if fired != expect:
        _note(f"event {evname} from {pre_ids}: fired {fired}, reference {expect} (nominees {[_marker(t) for t in want]}); guards={dict(gfn.cache)}")
        ok = False
    if ok and can != (len(want) > 0):
        _note(f"can({evname}) = {can} but reference nominees = {[_marker(t) for t in want]}")
        ok = False
    if ok and len(GCALLS) != len(set(GCALLS)):
        # the same guard instance evaluated twice within send(): once per selection pass is the rule
        # (a second pass happens for the eventless settle, which involves no guard in this wiring)
        _note(f"guard evaluated more than once in one pass: {GCALLS}")
        ok = False
    if ok and not want:
        # perfect no-op
        if rec:
            _note(f"unhandled {evname}: actions ran {[(k, s) for k, s, _ in rec]}")
            ok = False
        elif sorted(n.id for n in it._active_state_nodes) != pre_ids:
            _note(f"unhandled {evname}: configuration changed")
            ok = False
        elif it.context != ctx_before or dict(it._history) != hist_before or not queue_empty or it.status != "running":
            _note(f"unhandled {evname}: context/history/queue/status changed")
            ok = False
    return verdict(ok, nontrivial=True)


OBLIGATIONS = {"select_diff": select_diff}


def items(tier: str, seed: int) -> List[Dict[str, Any]]:
    out: List[Dict[str, Any]] = []
    quick = tier == "quick"
    cur = ["CUR2", "CUR3", "CUR7", "CUR10", "CUR11"] if quick else list(skeletons.CURATED)
    fam = skeletons.gen(4, 3, limit=6 if quick else 120, seed=seed + 2)
    todo = [(sid, skeletons.CURATED[sid]) for sid in cur] + fam
    for sid, spec in todo:
        for ev in ("E0", "E1", "E2", "E3", "E5", "E6", "U"):
            for eng in (0, 1):
                if quick and eng == 1 and not ((sid == "CUR2") or (sid in ("CUR3", "CUR11") and ev == "E2")):
                    continue
                if quick and ev in ("E5", "E6") and sid not in ("CUR2", "CUR3"):
                    continue
                if quick and ((ev == "E0" and sid in ("CUR7", "CUR10")) or (ev in ("E1", "E3") and sid == "CUR10")):
                    continue  # 2^(#active states) valuations: thorough tier only
                heavy = (sid in ("CUR11", "CUR3") and ev == "E0") or (sid in ("CUR7", "CUR10") and ev == "E1")
                out.append({"ob": "select_diff", "params": {"sid": sid, "spec": spec, "eng": eng, "event": ev},
                            "timeout": (330 if heavy else 200) if quick else 1200,
                            "label": f"select_diff[{sid},{ev},{'sync' if eng == 0 else 'async'}]"})
    return out
