"""C04 - run-to-completion and lossless, ordered event processing
(producers are sequentialised; WHERE and WHEN they send is symbolic).

  reentrant     actions of the machine RM call interp.send(...) / use the raise
      built-in at positions selected by symbolic booleans (entry during
      start(), exit, transition actions, inside choose); the caller sends
      single events and send_events() batches of symbolic size. Oracle over
      the bracket log (on_event_received opens a bracket):
        * every accepted event is processed exactly once;
        * brackets never nest (no event is processed while an action of
          another event is still on the stack);
        * events of one sender are processed in sending order;
        * eventless (always) follow-ups complete inside the bracket of the
          event that enabled them;
        * events raised during processing are handled after the current
          bracket has closed.
  producers     (async, virtual time) two producer tasks sending at symbolic
      instants, an `after` timer, a service completion and a slow action of
      symbolic duration; (sync, virtual threads) timer-thread bodies delivered
      inside a slow action and between sends. Same oracle.
"""
from __future__ import annotations

from typing import Any, Dict, List, Optional, Tuple

from vf import env, model, vloop, vthread
from vf.kf import gate, verdict
from vf.logic import make_logic
from harness import common
from harness.common import pick

PROPERTY = "C04"
P: Dict[str, Any] = {}
EXPLAIN: List[str] = []
EXPLANATION = (
    "C04 (run to completion): CrossHair executes send()/send_events()/_process_event_queue/_run_event_loop/_deliver/"
    "start() of both engines on a machine whose actions send to their own interpreter at symbolically chosen positions, "
    "with bursts of symbolic size and (virtual time) producers sending at symbolic instants; the oracle reads the "
    "bracket log opened by the on_event_received plugin hook."
)
NONTRIVIAL_RULE = "processed at least two events, one of them sent from inside an action or by a second producer"
BOUNDS = {
    "reentrant": "machine RM; 6 symbolic send-position bits (entry during start, exit, two transition-action positions, choose branch, always action); external script = one event + a send_events batch of n in [0,4] + one event; maxIterations default; both engines",
    "start_raise": "an entry action on the root / the compound initial state / its compound child raises an event during start() through the built-in raise, raise with delay 0 or a user action calling send(): the event is handled only after the whole initial entry has completed; start() returns with a legal configuration; both engines",
    "batch_fault": "send_events() batch of 1-4 events with one faulty event (unresolvable target / unimplemented action / raising user action) at a symbolic position, followed by two ordinary sends: every other event is processed exactly once, in order, nothing stays queued; both engines",
    "volume": "machine VM (TICK -> count + r raised events); n in {3, 40, 1100, 2100} external events, r in {0,1,2}, event submitted as str / one dict object re-used / fresh dicts / one Event object re-used; one by one or send_events (sync) / two interleaved producers (async); every accepted event processed exactly once, no deadlock (virtual-time 30 s guard), payload intact, caller's dict untouched. Runs natively on the solver-chosen magnitudes (loops of thousands of sends are not traced)",
    "producers": "machine RM; two producers with two events each at symbolic instants in [0,30] ms, after-timer d in [1,30] ms, slow action a in [0,20] ms; both engines (sync: producers are the caller at two instants, timers run on virtual threads)",
}
ASSUMPTIONS = [
    "producers are sequentialised: the harness controls where and when a send happens; pre-emptive interleavings of two OS threads inside send()/_process_event_queue (check-then-set on the re-entrancy flag) are NOT covered - CrossHair executes one thread",
    "virtual time as in C08",
]
WALL_BUDGET = {"quick": 900.0, "thorough": 3300.0}

CTL: Dict[str, Any] = {}
_M: Dict[str, Any] = {}


def _note(m: str) -> None:
    EXPLAIN.append(m)


def _seq() -> int:
    CTL["seq"] += 1
    return CTL["seq"]


def _send_from_action(interp: Any, sender: str) -> None:
    """An action that sends to its own interpreter (sync: plain call; async:
    scheduled through the raise built-in instead, see rm_config)."""
    k = _seq()
    CTL["sent"].append((sender, k))
    CTL["in_action"] += 1
    try:
        r = interp.send("NOTE", k=k, sender=sender)
        if hasattr(r, "__await__"):
            CTL["pending_aw"].append(r)
    finally:
        CTL["in_action"] -= 1


def _mk_sender(pos: str) -> Any:
    def act(i: Any, c: Any, e: Any, a: Any) -> None:
        CTL["log"].append(("act", pos))
        if CTL["bits"](pos):
            _send_from_action(i, pos)

    return act


async def _a_sender(pos: str, i: Any) -> None:
    if CTL["bits"](pos):
        k = _seq()
        CTL["sent"].append((pos, k))
        CTL["in_action"] += 1
        try:
            await i.send("NOTE", k=k, sender=pos)
        finally:
            CTL["in_action"] -= 1


def _mk_asender(pos: str) -> Any:
    async def act(i: Any, c: Any, e: Any, a: Any) -> None:
        CTL["log"].append(("act", pos))
        await _a_sender(pos, i)

    return act


def _note_act(i: Any, c: Any, e: Any, a: Any) -> None:
    CTL["log"].append(("note", e.payload.get("k"), e.payload.get("sender")))


def _mark(name: str) -> Any:
    def act(i: Any, c: Any, e: Any, a: Any) -> None:
        CTL["log"].append(("act", name))

    return act


def _slow_sync(i: Any, c: Any, e: Any, a: Any) -> None:
    CTL["log"].append(("act", "slow"))
    vthread.SCHED.advance_by(CTL["a"] / 1000.0)


async def _slow_async(i: Any, c: Any, e: Any, a: Any) -> None:
    import asyncio

    CTL["log"].append(("act", "slow"))
    await asyncio.sleep(CTL["a"] / 1000.0)


def rm_config() -> Dict[str, Any]:
    from xstate_statemachine import actions as A

    return {
        "id": "m", "initial": "A",
        "on": {"NOTE": {"actions": ["note"]}, "RAISED": {"actions": ["note"]}, "TICK": {"actions": ["note"]}},
        "states": {
            "A": {
                "entry": ["s:A.entry"], "exit": ["s:A.exit"],
                "after": {"TMR": {"actions": ["m:timer"]}},
                "on": {
                    "X": {"target": "B", "actions": ["s:t.0", A.choose([{"guard": "gch", "actions": ["s:choose"]}]), "s:t.2"]},
                    "SLOW": {"actions": ["slow"]},
                },
            },
            "B": {"entry": ["m:B.entry"], "always": [{"target": "C", "guard": "galw", "actions": ["s:alw"]}], "on": {"X": "A"}},
            "C": {"entry": ["m:C.entry"], "on": {"X": "A", "SLOW": {"actions": ["slow"]}}},
        },
    }


POS = ["A.entry", "A.exit", "t.0", "choose", "t.2", "alw"]


def _machine(eng: int) -> Any:
    m = _M.get(eng)
    if m is None:
        from xstate_statemachine import create_machine

        env.install()
        acts: Dict[str, Any] = {"note": _note_act, "slow": _slow_sync if eng == 0 else _slow_async}
        for p in POS:
            acts[f"s:{p}"] = _mk_sender(p) if eng == 0 else _mk_asender(p)
        for mname in ("timer", "B.entry", "C.entry"):
            acts[f"m:{mname}"] = _mark(mname)
        logic = make_logic(actions=acts, guards={"gch": lambda c, e: True, "galw": lambda c, e: True},
                           delays={"TMR": lambda c, e: CTL["d"]})
        m = create_machine(rm_config(), logic=logic)
        env.pin_hashes(m)
        _M[eng] = m
    return m


def set_params(p: Dict[str, Any]) -> None:
    global P
    P = p
    vthread.install()
    _machine(0)
    _machine(1)


class _Brackets:
    def on_event_received(self, interp: Any, event: Any) -> None:
        k = event.payload.get("k") if hasattr(event, "payload") else None
        CTL["log"].append(("open", event.type, k, CTL["in_action"]))

    def on_transition(self, *a: Any) -> None:
        return None


def _reset(bits: Any, d: Any = 1000, a: Any = 0) -> None:
    CTL.update({"seq": 0, "sent": [], "log": [], "in_action": 0, "bits": bits, "d": d, "a": a, "pending_aw": []})


def _ext(sender: str, typ: str = "NOTE") -> Dict[str, Any]:
    k = _seq()
    CTL["sent"].append((sender, k))
    return {"type": typ, "k": k, "sender": sender}


def _check() -> Optional[str]:
    log = CTL["log"]
    opens = [x for x in log if x[0] == "open"]
    # 2. no nesting: an event must not start being processed while an action is on the stack
    for o in opens:
        if o[3] > 0:
            return f"event {o[1]}#{o[2]} started being processed while an action of another event was still running (re-entrant processing)"
    # 1. exactly once
    want = sorted(k for _s, k in CTL["sent"])
    got = sorted(o[2] for o in opens if o[2] is not None)
    if want != got:
        missing = [k for k in want if k not in got]
        dup = sorted({k for k in got if got.count(k) > 1})
        return f"accepted events {want}, processed {got} (lost {missing}, duplicated {dup})"
    # 3. per-sender order
    order = [o[2] for o in opens if o[2] is not None]
    by_sender: Dict[str, List[int]] = {}
    for s, k in CTL["sent"]:
        by_sender.setdefault(s, []).append(k)
    for s, ks in by_sender.items():
        pos = [order.index(k) for k in ks]
        if pos != sorted(pos):
            return f"events of sender {s} sent as {ks} were processed in positions {pos}"
    # 4. always follow-ups inside the bracket: 'alw' and 'C.entry' right after 'B.entry' before the next open
    idx = 0
    while idx < len(log):
        if log[idx] == ("act", "B.entry"):
            j = idx + 1
            seen = []
            while j < len(log) and log[j][0] != "open":
                if log[j][0] == "act":
                    seen.append(log[j][1])
                j += 1
            if "alw" not in seen or "C.entry" not in seen:
                return f"the eventless follow-up of B did not complete before the next event started: {seen}"
        idx += 1
    return None


def _bits(vals: List[Any]) -> Any:
    cache: Dict[str, bool] = {}

    def f(pos: str) -> bool:
        if pos not in cache:
            cache[pos] = True if vals[POS.index(pos)] else False
        return cache[pos]

    return f


def reentrant(eng: int, b0: bool, b1: bool, b2: bool, b3: bool, b4: bool, b5: bool, n: int) -> bool:
    """
    pre: 0 <= eng <= 1
    pre: gate('reentrant', eng=eng, n=n)
    post: _
    """
    from xstate_statemachine import Interpreter, SyncInterpreter

    if eng != P.get("eng", eng):
        return verdict(True, nontrivial=False)  # the other engine is a separate work item
    _reset(_bits([b0, b1, b2, b3, b4, b5]))
    nn = P["n"] if "n" in P else pick(n, 5)
    m = _machine(eng)
    if eng == 0:
        vthread.SCHED.reset(0.0)
        it = SyncInterpreter(m)
        it.use(_Brackets())
        it.start()
        it.send(_ext("caller", "X"))
        it.send_events([_ext("caller") for _ in range(nn)])
        it.send(_ext("caller", "X"))
        it.send(_ext("caller"))
        it.stop()
    else:
        it = Interpreter(m)
        it.use(_Brackets())

        async def go() -> None:
            await it.start()
            await it.send(_ext("caller", "X"))
            await it.send_events([_ext("caller") for _ in range(nn)])
            await it.send(_ext("caller", "X"))
            await it.send(_ext("caller"))
            await _drain(it)
            await it.stop()

        common.drive(go())
    why = _check()
    if why:
        _note(f"{'sync' if eng == 0 else 'async'} send positions={ {p: CTL['bits'](p) for p in POS} } batch={nn}: {why}; log={CTL['log']}"[:1500])
    return verdict(why is None, nontrivial=len(CTL["sent"]) >= 2)


async def _drain(it: Any) -> None:
    import asyncio

    for _ in range(300):
        if it._event_queue._unfinished_tasks == 0:
            await asyncio.sleep(0)
            if it._event_queue._unfinished_tasks == 0:
                return
        if it._event_loop_task is None or it._event_loop_task.done():
            return
        await asyncio.sleep(0)


def producers(eng: int, t1: int, t2: int, d: int, a: int, slow_first: bool) -> bool:
    """
    pre: 0 <= eng <= 1
    pre: 0 <= t1 <= 30 and 0 <= t2 <= 30 and 1 <= d <= 30 and 0 <= a <= 20
    pre: gate('producers', eng=eng, t1=t1, t2=t2, d=d, a=a)
    post: _
    """
    from xstate_statemachine import Interpreter, SyncInterpreter

    if eng != P.get("eng", eng) or bool(slow_first) != P.get("slow_first", bool(slow_first)):
        return verdict(True, nontrivial=False)
    _reset(_bits([False, False, False, False, False, False]), d=d, a=a)
    m = _machine(eng)
    if eng == 0:
        S = vthread.SCHED
        S.reset(0.0)
        it = SyncInterpreter(m)
        it.use(_Brackets())
        it.start()
        first, second = (t1, "p1"), (t2, "p2")
        if t2 < t1:
            first, second = second, first
        for (t, who) in (first, second):
            S.advance_to(t / 1000.0)
            if slow_first and who == "p1":
                it.send(_ext(who, "SLOW"))
            it.send(_ext(who))
            it.send(_ext(who))
        S.advance_to(0.1)
        it.stop()
    else:
        import asyncio

        it = Interpreter(m)
        it.use(_Brackets())

        async def producer(t: Any, who: str) -> None:
            await asyncio.sleep(t / 1000.0)
            if slow_first and who == "p1":
                await it.send(_ext(who, "SLOW"))
            await it.send(_ext(who))
            await it.send(_ext(who))

        async def go() -> None:
            await it.start()
            a1 = asyncio.ensure_future(producer(t1, "p1"))
            a2 = asyncio.ensure_future(producer(t2, "p2"))
            await a1
            await a2
            await asyncio.sleep(0.1)
            await _drain(it)
            await it.stop()

        common.drive(go())
    why = _check()
    if why is None:
        # the timer's expiry is processed exactly once while A stays active long enough
        timers = [x for x in CTL["log"] if x == ("act", "timer")]
        if len(timers) != 1:
            why = f"the after-timer of A fired {len(timers)} times although A stayed active for 100 ms (d={d})"
    if why:
        _note(f"{'sync' if eng == 0 else 'async'} t1={t1} t2={t2} d={d} a={a} slow_first={bool(slow_first)}: {why}; log={CTL['log']}"[:1500])
    return verdict(why is None, nontrivial=True)


# ---------------------------------------------------------------------------
# volume: no amount of external sends loses an event; an event object may be submitted more than once
# ---------------------------------------------------------------------------

MAGS = [3, 40, 1100, 2100]
FORMS = ["str", "same dict", "fresh dict", "same Event object"]
_VM: Dict[int, Any] = {}


def _vm(raises: int) -> Any:
    m = _VM.get(raises)
    if m is None:
        from xstate_statemachine import actions as A, create_machine

        env.install()

        def cnt(i: Any, c: Any, e: Any, a: Any) -> None:
            c["ticks"] += 1
            c["last"] = e.payload.get("k", c["last"]) if hasattr(e, "payload") else c["last"]

        def cnt_r(i: Any, c: Any, e: Any, a: Any) -> None:
            c["raised"] += 1

        cfg = {"id": "vm", "initial": "I", "context": {"ticks": 0, "raised": 0, "last": None},
               "states": {"I": {"on": {"TICK": {"actions": ["cnt"] + [A.raise_("R")] * raises}, "R": {"actions": ["cntR"]}}}}}
        m = create_machine(cfg, logic=make_logic(actions={"cnt": cnt, "cntR": cnt_r}))
        env.pin_hashes(m)
        _VM[raises] = m
    return m


def volume(eng: int, mag: int, raises: int, form: int, batch: bool) -> bool:
    """
    pre: 0 <= eng <= 1
    pre: gate('volume', eng=eng, mag=mag, raises=raises, form=form, batch=batch)
    post: _
    """
    if "eng" in P and eng != P["eng"]:
        return verdict(True, nontrivial=False)
    eng = pick(eng, 2)
    n = MAGS[pick(mag, len(MAGS))]
    r = pick(raises, 3)
    f = pick(form, len(FORMS))
    b = bool(batch)

    def run() -> Optional[str]:
        from xstate_statemachine import Interpreter, SyncInterpreter
        from xstate_statemachine.events import Event

        m = _vm(r)
        shared_dict = {"type": "TICK", "k": 7}
        shared_event = Event("TICK", {"k": 7})

        def ev() -> Any:
            return ["TICK", shared_dict, {"type": "TICK", "k": 7}, shared_event][f]

        if eng == 0:
            vthread.SCHED.reset(0.0)
            it = SyncInterpreter(m)
            it.start()
            if b:
                it.send_events([ev() for _ in range(n)])
            else:
                for _ in range(n):
                    it.send(ev())
            ctx = dict(it.context)
            it.stop()
        else:
            import asyncio

            it2 = Interpreter(m)
            box: Dict[str, Any] = {}

            async def produce(k: int) -> None:
                for _ in range(k):
                    await it2.send(ev())

            async def go() -> None:
                await it2.start()
                try:
                    if b:      # two producers interleaved by the event loop
                        await asyncio.wait_for(asyncio.gather(produce(n // 2), produce(n - n // 2)), timeout=30.0)
                    else:
                        await asyncio.wait_for(produce(n), timeout=30.0)
                    await asyncio.wait_for(it2._event_queue.join(), timeout=30.0)
                except asyncio.TimeoutError:
                    box["dead"] = f"deadlock: producers / queue did not finish (queue size {it2._event_queue.qsize()}, processed {it2.context['ticks']} of {n})"
                box["ctx"] = dict(it2.context)
                await it2.stop()

            lp = vloop.VLoop()
            vloop.run(go(), lp)
            lp.close()
            if "dead" in box:
                return box["dead"]
            ctx = box["ctx"]
        if ctx["ticks"] != n:
            return f"{n} TICK events were accepted, {ctx['ticks']} were processed as TICK"
        if ctx["raised"] != n * r:
            return f"{n * r} raised events expected, {ctx['raised']} processed"
        if f in (1, 2, 3) and ctx["last"] != 7:
            return f"payload of the submitted event lost: last k = {ctx['last']!r}"
        if f == 1 and shared_dict != {"type": "TICK", "k": 7}:
            return f"the caller's event dict was modified: {shared_dict!r}"
        return None

    why = common.native(run)
    if why:
        _note(f"{'sync' if eng == 0 else 'async'} n={n} raises-per-event={r} event form={FORMS[f]} {'batch/2 producers' if b else 'one by one'}: {why}")
    return verdict(why is None)


# ---------------------------------------------------------------------------
# start_raise / batch_fault
# ---------------------------------------------------------------------------

def start_raise(eng: int, how: int, depth: int) -> bool:
    """
    pre: 0 <= eng <= 1
    pre: gate('start_raise', eng=eng, how=how, depth=depth)
    post: _
    """
    from xstate_statemachine import Interpreter, SyncInterpreter, actions as A, create_machine

    eng = pick(eng, 2)
    h = pick(how, 3)       # who raises: built-in raise / built-in sendTo(self is not addressable: raise with delay 0) / a user action calling send()
    d = pick(depth, 3)     # the raising entry action sits on the root / on the compound initial state / on its compound child
    key = f"SR{eng}{h}{d}"
    log: List[Any] = []
    m = _M.get(key)
    if m is None:
        env.install()

        def mark(name: str) -> Any:
            def f(i: Any, c: Any, e: Any, a: Any) -> None:
                CTL["srlog"].append(name)
            return f

        if eng == 0:
            def user_send(i: Any, c: Any, e: Any, a: Any) -> None:
                CTL["srlog"].append("raise")
                i.send("READY")
        else:
            async def user_send(i: Any, c: Any, e: Any, a: Any) -> None:  # type: ignore[misc]
                CTL["srlog"].append("raise")
                await i.send("READY")
        raiser: Any = [A.raise_("READY"), {"type": "xstate.raise", "params": {"event": "READY", "delay": 0}}, "userSend"][h]
        entries = {0: [], 1: [], 2: []}
        entries[d] = [raiser]
        cfg = {
            "id": "m", "initial": "boot", "entry": ["root.en"] + entries[0],
            "on": {"READY": {"target": ".idle", "actions": ["ready"]}},
            "states": {
                "boot": {"initial": "s1", "entry": ["boot.en"] + entries[1],
                         "states": {"s1": {"initial": "t1", "entry": ["s1.en"] + entries[2], "states": {"t1": {"entry": ["t1.en"]}}}}},
                "idle": {"entry": ["idle.en"]},
            },
        }
        acts = {n: mark(n) for n in ("root.en", "boot.en", "s1.en", "t1.en", "idle.en", "ready")}
        acts["userSend"] = user_send
        m = create_machine(cfg, logic=make_logic(actions=acts))
        env.pin_hashes(m)
        _M[key] = m
    CTL["srlog"] = log
    if eng == 0:
        vthread.SCHED.reset(0.0)
        it = SyncInterpreter(m)
        it.start()
        cfg_after = sorted(n.id for n in it._active_state_nodes)
        it.stop()
    else:
        it2 = Interpreter(m)
        box: Dict[str, Any] = {}

        async def go() -> None:
            await it2.start()
            box["at_return"] = sorted(n.id for n in it2._active_state_nodes)
            await it2._event_queue.join()
            box["cfg"] = sorted(n.id for n in it2._active_state_nodes)
            await it2.stop()

        common.drive(go())
        cfg_after = box["cfg"]
        r = model.legal_reason([n for n in it2.machine.states.values() if False] or [], it2.machine) if False else None
        leaves_at_return = [x for x in box["at_return"] if x.count(".") >= 1 and not any(y.startswith(x + ".") for y in box["at_return"])]
        if len(leaves_at_return) != 1:
            _note(f"async how={h} depth={d}: start() returned with the configuration {box['at_return']} (leaves {leaves_at_return})")
            return verdict(False)
    why = None
    names = [x for x in log if x != "raise"]
    want = ["root.en", "boot.en", "s1.en", "t1.en", "ready", "idle.en"]
    if names != want:
        why = f"order of entry actions and the raised event's handling: {names}, expected {want} (the raised event is handled after the initial entry has completed)"
    elif cfg_after != ["m", "m.idle"]:
        why = f"configuration after start() and the raised event: {cfg_after}"
    if why:
        _note(f"{'sync' if eng == 0 else 'async'} raiser={['raise', 'raise(delay 0)', 'user action send()'][h]} on level {d}: {why}")
    return verdict(why is None)


def batch_fault(eng: int, pos: int, n: int, kind: int) -> bool:
    """
    pre: 0 <= eng <= 1
    pre: gate('batch_fault', eng=eng, pos=pos, n=n, kind=kind)
    post: _
    """
    from xstate_statemachine import Interpreter, SyncInterpreter, create_machine
    from xstate_statemachine.exceptions import XStateMachineError

    eng = pick(eng, 2)
    nn = 1 + pick(n, 4)
    p = pick(pos, nn)
    k = pick(kind, 3)         # BAD = unresolvable target / unimplemented action / raising guard-less user action (contained)
    m = _M.get("BF")
    if m is None:
        env.install()

        def add(i: Any, c: Any, e: Any, a: Any) -> None:
            CTL["bf"].append(e.payload.get("k"))

        def boom(i: Any, c: Any, e: Any, a: Any) -> None:
            raise RuntimeError("user action fault")

        cfg = {"id": "m", "initial": "a",
               "states": {"a": {"on": {"ADD": {"actions": ["add"]}, "BAD0": {"target": "nowhere.at.all"},
                                       "BAD1": {"actions": ["zz_missing"]}, "BAD2": {"actions": ["boom"]}}}}}
        m = create_machine(cfg, logic=make_logic(actions={"add": add, "boom": boom}))
        env.pin_hashes(m)
        _M["BF"] = m
    CTL["bf"] = []
    evs: List[Any] = [{"type": "ADD", "k": i} for i in range(nn)]
    evs.insert(p, f"BAD{k}")
    if eng == 0:
        vthread.SCHED.reset(0.0)
        it = SyncInterpreter(m)
        it.start()
        try:
            it.send_events(evs)
        except XStateMachineError:
            pass
        it.send({"type": "ADD", "k": 100})
        it.send({"type": "ADD", "k": 101})
        left = len(it._event_queue)
        it.stop()
    else:
        it2 = Interpreter(m)
        box: Dict[str, Any] = {}

        async def go() -> None:
            await it2.start()
            await it2.send_events(evs)
            await it2.send({"type": "ADD", "k": 100})
            await it2.send({"type": "ADD", "k": 101})
            import asyncio

            try:
                await asyncio.wait_for(it2._event_queue.join(), timeout=5.0)
            except asyncio.TimeoutError:
                pass
            box["left"] = it2._event_queue.qsize()
            await it2.stop()

        common.drive(go())
        left = box["left"]
    want = list(range(nn)) + [100, 101]
    ok = CTL["bf"] == want and left == 0
    if not ok:
        _note(f"{'sync' if eng == 0 else 'async'} batch {evs} (fault kind {k} at position {p}) then two more sends: processed {CTL['bf']}, expected {want}; still queued: {left}")
    return verdict(ok)


OBLIGATIONS = {"reentrant": reentrant, "producers": producers, "volume": volume, "start_raise": start_raise, "batch_fault": batch_fault}
PROBES = {"reentrant": [{"b0": True, "b2": True, "n": 3}, {"eng": 1, "b1": True, "b3": True, "b5": True, "n": 2}],
          "producers": [{"t1": 5, "t2": 5, "d": 5, "a": 10, "slow_first": True}, {"eng": 1, "t1": 3, "t2": 4, "d": 4, "a": 10, "slow_first": True}]}


def items(tier: str, seed: int) -> List[Dict[str, Any]]:
    quick = tier == "quick"
    out: List[Dict[str, Any]] = []
    for eng in (0, 1):
        e = "sync" if eng == 0 else "async"
        for n in ((0, 2) if quick else (0, 1, 2, 4)):
            out.append({"ob": "reentrant", "params": {"eng": eng, "n": n}, "timeout": 300 if quick else 1500, "label": f"reentrant[{e},batch={n}]"})
        for sf in (False, True):
            out.append({"ob": "producers", "params": {"eng": eng, "slow_first": sf}, "timeout": 400 if quick else 1500, "path_timeout": 40,
                        "label": f"producers[{e},slow_first={sf}]"})
        out.append({"ob": "volume", "params": {"eng": eng}, "timeout": 600, "label": f"volume[{e}]"})
    out.append({"ob": "start_raise", "params": {}, "timeout": 300, "label": "start_raise"})
    out.append({"ob": "batch_fault", "params": {}, "timeout": 300, "label": "batch_fault"})
    return out
