"""C11 - history states restore the last active sub-configuration.

  history_restore  a transition whose source lies OUTSIDE the history node's
      parent and whose target is the history node, from every publicly
      reachable (configuration, recorded history) pair in which the parent is
      inactive (never visited / visited with any last sub-configuration),
      optionally after a snapshot -> from_snapshot round trip, on both engines.
      Oracle (model.history_ref): shallow -> the recorded child + its default
      descent; deep -> exactly the recorded leaves; never visited -> default
      target, else the parent's normal entry; every restored state is entered
      exactly once.
"""
from __future__ import annotations

from typing import Any, Dict, List, Optional

from vf import model, skeletons
from vf.kf import gate, verdict
from harness import common
from harness import c01 as base
from harness.common import LazyHist, pick

PROPERTY = "C11"
P: Dict[str, Any] = {}
EXPLAIN: List[str] = []
EXPLANATION = (
    "C11 (history): CrossHair executes the real transition code (_record_history is exercised by the native "
    "reachability exploration that produces the pre-states; _resolve_history_target, _enter_states, from_snapshot "
    "history restore symbolically) for a history-targeting transition from outside the parent; configuration, which "
    "reachable history assignment was recorded, source, history node, snapshot round-trip and engine are symbolic."
)
NONTRIVIAL_RULE = "executed a history-targeting transition from a state outside the history node's parent"
BOUNDS = {
    "history_restore": "skeleton fixed per item; every legal configuration in which the history parent is inactive x every history assignment publicly reachable with it (incl. 'never exited' where reachable); every active source; every history node of the skeleton; snapshot round trip in {no, yes}; both engines",
}
ASSUMPTIONS = list(base.ASSUMPTIONS) + [
    "history targets taken while the history node's parent is active are outside this obligation (the statement leaves their meaning open); C01 covers their legality",
]
WALL_BUDGET = {"quick": 600.0, "thorough": 3000.0}
LAST = base.LAST


def set_params(p: Dict[str, Any]) -> None:
    global P
    P = p
    base.set_params(p)


def _note(m: str) -> None:
    EXPLAIN.append(m)


def history_restore(eng: int, c0: int, c1: int, c2: int, c3: int, c4: int, c5: int, hsel: int,
                    srcsel: int, hn: int, snap: bool) -> bool:
    """
    pre: 0 <= eng <= 1
    pre: gate('history_restore', eng=eng, hn=hn)
    post: _
    """
    from xstate_statemachine import Interpreter, SyncInterpreter
    from xstate_statemachine.events import Event
    from xstate_statemachine.exceptions import StateNotFoundError
    from xstate_statemachine.models import ActionDefinition, TransitionDefinition
    from xstate_statemachine.resolver import resolve_target_state

    if "eng_hint" in P and eng != P["eng_hint"]:
        return verdict(True, nontrivial=False)  # the other engine is a separate work item
    sk = base._sk()
    hnodes = [n for n in sk.nodes if n.type == "history"]
    h = hnodes[pick(hn, len(hnodes))]
    parent = h.parent
    reach = common.get_reach(sk)
    if reach.hist_errors:
        _note("recording defect on a public run: " + reach.hist_errors[0])
        return verdict(False)
    pre = base._prestate(sk, eng, [c0, c1, c2, c3, c4, c5], hsel)
    if pre is None:
        return verdict(True, nontrivial=False)
    interp, active, watch = pre
    if any(a is parent for a in active):
        return verdict(True, nontrivial=False)
    src = active[pick(srcsel, len(active))]
    # which history assignment are we in?  (decide now: the oracle needs it)
    recorded = interp._history.get(parent.id)
    recorded = list(recorded) if recorded else None
    if snap:
        cls = SyncInterpreter if eng == 0 else Interpreter
        restored = cls.from_snapshot(interp.get_snapshot(), sk.machine)
        restored.status = "running"
        restored.__dict__["_rec"] = []
        interp = restored
    tr = TransitionDefinition("E", {"target": "#" + h.id}, source=src,
                              actions=[ActionDefinition({"type": "tr", "params": {"s": "T"}})])
    LAST.update({"src": src.id, "target": "#" + h.id, "reenter": False})
    ev = Event("E")
    err = base._run_transition(interp, eng, tr, ev)
    if err is not None:
        _note(f"history transition {src.id} -> #{h.id} raised {err}")
        return verdict(False)

    def resolve_default(t: str) -> Any:
        try:
            return resolve_target_state(t, h)
        except StateNotFoundError:
            return None

    want = model.history_ref(h, recorded, resolve_default)
    want_ids = sorted(n.id for n in want)
    got_ids = sorted(n.id for n in interp._active_state_nodes if model.is_desc(n, parent))
    ok = got_ids == want_ids
    if not ok:
        _note(f"{'sync' if eng == 0 else 'async'} {src.id} -> #{h.id} ({h.history}) recorded="
              f"{sorted(n.id for n in recorded) if recorded else None} snapshot={bool(snap)}: active below parent {got_ids}, reference {want_ids}")
    if ok:
        entered = [r[1] for r in interp.__dict__["_rec"] if r[0] == "en"]
        below = sorted(e for e in entered if e == parent.id or e.startswith(parent.id + "."))
        if below != want_ids:
            _note(f"entry actions below the parent ran for {below}, expected exactly once each for {want_ids}")
            ok = False
    return verdict(ok)


def _public(**_a: Any) -> Any:
    return base._public_step(**_a)


OBLIGATIONS = {"history_restore": history_restore}


def items(tier: str, seed: int) -> List[Dict[str, Any]]:
    out: List[Dict[str, Any]] = []
    quick = tier == "quick"
    cur = ["CUR4", "CUR5", "CUR9", "CUR12", "CUR13", "CUR14", "CUR16", "CUR17"]
    fam = [(sid, spec) for sid, spec in skeletons.gen(5, 3, limit=4000, seed=seed + 3) if skeletons._count(spec, "h") >= 1]
    fam = fam[: (40 if quick else 300)]
    for sid in cur:
        spec = skeletons.CURATED[sid]
        for eng in (0, 1):
            out.append({"ob": "history_restore", "params": {"sid": sid, "spec": spec, "eng_hint": eng},
                        "timeout": 240 if quick else 900, "label": f"history_restore[{sid},{'sync' if eng == 0 else 'async'}]"})
    for sid, spec in fam:
        out.append({"ob": "history_restore", "params": {"sid": sid, "spec": spec}, "timeout": 150, "label": f"history_restore[{sid}]"})
    return out
