"""C09 - invoked services: one start per activation, one outcome, no zombie
results.  (virtual time as in C08)

  invoke_schedule  machine IM: state W invokes service 's1' (async engine: a
      coroutine that completes after c ms with a symbolic outcome return /
      raise; sync engine: a plain callable with the same outcome) with a
      declared input and onDone / onError handlers; leave (LEAVE), re-entry
      (RE), slow targetless action (NOP), BACK, stop(). Two stimuli at symbolic
      instants. Oracle over the time-stamped log:
        * each entry into W starts the service exactly once with the declared
          input;
        * a completion of the CURRENT activation is processed exactly once and
          drives onDone(data = return value) / onError(data = exception);
        * a completion produced by an activation that has been exited - even
          if W has been re-entered since - drives nothing;
        * after exit / stop no service task of that activation is alive.
  no_handler       a failing service without onError puts the interpreter into
      status 'error' with the exception recorded; later events are ignored.
  child_machine    invoking a machine as src: one started child per
      activation, onDone when it reaches its final state (data = child
      context), child stopped and unregistered after exit / stop.
"""
from __future__ import annotations

from typing import Any, Dict, List, Optional, Tuple

from vf import env, model, vloop, vthread
from vf.kf import gate, verdict
from vf.logic import make_logic
from harness import common
from harness.common import pick

PROPERTY = "C09"
P: Dict[str, Any] = {}
EXPLAIN: List[str] = []
EXPLANATION = (
    "C09 (invoked services): CrossHair executes _schedule_state_tasks/_invoke_service/_invoke_service_task/"
    "_spawn_and_manage_actor/_cancel_state_tasks/TaskManager, send() and stop() of both engines on an invoke machine "
    "under a virtual clock; completion time, outcome, the instants and kinds of two stimuli are symbolic."
)
NONTRIVIAL_RULE = "started at least one service and processed a completion or a stimulus"
BOUNDS = {
    "invoke_schedule": "machine IM (async engine also with the service registered as an object with async __call__, a plain def returning the coroutine, a functools.partial: 'form' in the label); completion time c in [0,40] ms, outcome in {return, raise}, slow action a in [0,40] ms, stimuli at t1<=t2 in [0,60] ms with kinds fixed per item out of {LEAVE,RE,NOP,BACK,STOP}; observation window 150 ms; both engines (sync: the service completes at once)",
    "multi_invoke": "machine MI: parallel state P (invoke a) with regions R1 {x (invokes b with id and handlers leaving to y, and c without id), y} and R2 {u (invoke b2, same source as b)}; completion times c2 (b), c2+4 (c) in [0,30] ms, outcome f2 of b symbolic; completion time c1 of a and b2 and outcome f1 of a, b2, c fixed per item (6 ms / success; thorough also 15 ms / failure); slow action a = 8 ms, two stimuli at t1 in [0,40] ms (symbolic) and t1 + gap (gap fixed per item) with kinds fixed per item out of {LEAVE,RE,XRE,NOP,XBACK,STOP}; window 120 ms; both engines",
    "no_handler": "machine IM2 (no onError); outcome in {return, raise}; one later event; both engines",
    "child_machine": "machine IM3 invoking a child machine that finishes on its k-th TICK (k in {0,1,2}) or never; stimulus LEAVE/RE/STOP at a symbolic step; both engines (sync: blocking spawn)",
}
ASSUMPTIONS = [
    "virtual time as in C08 (VLoop / vthreading); the service awaits only asyncio.sleep, so cancellation lands at that await",
    "floats modelled as reals",
]
WALL_BUDGET = {"quick": 900.0, "thorough": 3300.0}

KINDS = ["LEAVE", "RE", "NOP", "BACK", "STOP"]
CTL: Dict[str, Any] = {}
_M: Dict[str, Any] = {}


def _note(m: str) -> None:
    EXPLAIN.append(m)


def _log(kind: str, what: Any) -> None:
    CTL["log"].append((CTL["clock"](), kind, what))


class SvcError(Exception):
    pass


async def _svc_async(interp: Any, ctx: Any, event: Any) -> Any:
    import asyncio

    CTL["starts"] += 1
    n = CTL["starts"]
    _log("svc.start", (n, dict(event.payload.get("input") or {})))
    try:
        await asyncio.sleep(CTL["c"] / 1000.0)
    except asyncio.CancelledError:
        _log("svc.cancelled", n)
        raise
    _log("svc.finish", n)
    if CTL["fail"]:
        raise SvcError(f"boom-{n}")
    return f"result-{n}"


def _svc_form(form: int) -> Any:
    """The same asynchronous service in the other callable shapes a user can register (async engine): 1 an object whose
    __call__ is a coroutine function, 2 a plain function returning the coroutine (what a decorator written with a plain
    def produces), 3 a functools.partial of the coroutine function.  The statement is about services, not about
    'async def' functions: each of them must be started once, awaited, and drive onDone / onError with its outcome."""
    import functools

    if form == 1:
        class _Obj:
            async def __call__(self, interp: Any, ctx: Any, event: Any) -> Any:
                return await _svc_async(interp, ctx, event)

        return _Obj()
    if form == 2:
        def wrapper(interp: Any, ctx: Any, event: Any) -> Any:
            return _svc_async(interp, ctx, event)

        return wrapper
    if form == 3:
        async def with_tag(tag: str, interp: Any, ctx: Any, event: Any) -> Any:
            return await _svc_async(interp, ctx, event)

        return functools.partial(with_tag, "t")
    return _svc_async


def _svc_sync(interp: Any, ctx: Any, event: Any) -> Any:
    CTL["starts"] += 1
    n = CTL["starts"]
    _log("svc.start", (n, dict(event.payload.get("input") or {})))
    _log("svc.finish", n)
    if CTL["fail"]:
        raise SvcError(f"boom-{n}")
    return f"result-{n}"


def _act(name: str) -> Any:
    def f(i: Any, c: Any, e: Any, a: Any) -> None:
        # (Event.data is a property with an isinstance(dict) check that misfires on the
        #  dict proxies CrossHair builds under tracing: read .data of DoneEvents only)
        d = e.data if type(e).__name__ == "DoneEvent" else None
        _log("act", (name, str(d) if isinstance(d, Exception) else d))

    return f


def _slow_sync(i: Any, c: Any, e: Any, a: Any) -> None:
    _log("act", ("slow.begin", None))
    vthread.SCHED.advance_by(CTL["a"] / 1000.0)
    _log("act", ("slow.end", None))


async def _slow_async(i: Any, c: Any, e: Any, a: Any) -> None:
    import asyncio

    _log("act", ("slow.begin", None))
    await asyncio.sleep(CTL["a"] / 1000.0)
    _log("act", ("slow.end", None))


def im_config(on_error: bool = True) -> Dict[str, Any]:
    inv: Dict[str, Any] = {"src": "svc", "id": "s1", "input": {"k": 1}, "onDone": {"target": "D", "actions": ["done"]}}
    if on_error:
        inv["onError"] = {"target": "E", "actions": ["err"]}
    return {
        "id": "m", "initial": "W",
        "states": {
            # W is compound so that it can also be entered through a descendant target (BACK -> W.w2)
            "W": {"entry": ["W.en"], "exit": ["W.ex"], "invoke": inv, "initial": "w1",
                  "states": {"w1": {}, "w2": {}},
                  "on": {"LEAVE": {"target": "I", "actions": ["slow"]}, "RE": {"target": "W", "reenter": True}, "NOP": {"actions": ["slow"]}}},
            "I": {"entry": ["I.en"], "on": {"BACK": "#m.W.w2", "RE": "W"}},
            "D": {"entry": ["D.en"], "on": {"BACK": "#m.W.w2"}},
            "E": {"entry": ["E.en"], "on": {"BACK": "#m.W.w2"}},
        },
    }


def _machine(key: str) -> Any:
    m = _M.get(key)
    if m is None:
        from xstate_statemachine import create_machine

        env.install()
        eng = int(key[-1])
        acts = {n: _act(n) for n in ("W.en", "W.ex", "I.en", "D.en", "E.en", "done", "err", "c.en", "cf.en", "P.done", "P.err")}
        acts["slow"] = _slow_sync if eng == 0 else _slow_async
        if key.startswith("IM4"):
            return _mi_machine(int(key[-1]))
        if key.startswith("IM3"):
            child = create_machine({
                "id": "kid", "initial": "c", "context": {"ticks": 0},
                "states": {"c": {"entry": ["c.en"], "on": {"TICK": [{"target": "cf", "guard": "last"}, {"actions": ["count"]}]}},
                           "cf": {"type": "final", "entry": ["cf.en"]}},
            }, logic=make_logic(actions=dict(acts, count=_count), guards={"last": _last}))
            env.pin_hashes(child)
            cfg = {
                "id": "m", "initial": "W",
                "states": {
                    "W": {"entry": ["W.en"], "exit": ["W.ex"],
                          "invoke": {"src": "kid", "id": "k1", "onDone": {"target": "D", "actions": ["P.done"]}, "onError": {"target": "E", "actions": ["P.err"]}},
                          "on": {"LEAVE": "I", "RE": {"target": "W", "reenter": True}}},
                    "I": {"entry": ["I.en"], "on": {"BACK": "W"}}, "D": {"entry": ["D.en"]}, "E": {"entry": ["E.en"]},
                },
            }
            m = create_machine(cfg, logic=make_logic(actions=acts, services={"kid": child}))
        else:
            cfg = im_config(on_error=not key.startswith("IM2"))
            svc: Any = _svc_sync if eng == 0 else _svc_async
            if key.startswith("IMf"):
                svc = _svc_form(int(key[3]))
            m = create_machine(cfg, logic=make_logic(actions=acts, services={"svc": svc}))
        env.pin_hashes(m)
        _M[key] = m
    return m


def _count(i: Any, c: Any, e: Any, a: Any) -> None:
    c["ticks"] += 1


def _last(c: Any, e: Any) -> bool:
    return c["ticks"] + 1 >= CTL["need"]


def set_params(p: Dict[str, Any]) -> None:
    global P
    P = p
    vthread.install()
    for k in ("IM0", "IM1", "IM20", "IM21", "IM30", "IM31", "IM40", "IM41", "IMf1_1", "IMf2_1", "IMf3_1"):
        _machine(k)


def _live_service_tasks(lp: Any) -> int:
    return common.native(_live_native, lp)


def _live_native(lp: Any) -> int:
    import asyncio

    n = 0
    for t in asyncio.all_tasks(lp):
        co = t.get_coro()
        nm = getattr(co, "__qualname__", getattr(co, "__name__", ""))
        if not t.done() and ("_invoke_wrapper" in nm or "_invoke_service_task" in nm or "_spawn_and_manage_actor" in nm or "_svc_async" in nm):
            n += 1
    return n


def _allowed(it: Any) -> int:
    """Number of service tasks the configuration justifies at a census point."""
    if it.status != "running":
        return 0
    owners = CTL.get("owners")
    if owners is None:
        return 1 if any(n.key == "W" for n in it._active_state_nodes) else 0
    active = {n.key for n in it._active_state_nodes}
    return sum(1 for k, o in owners.items() if o in active)


def _run(eng: int, mkey: str, stim: List[Tuple[Any, str]], horizon: Any) -> Any:
    from xstate_statemachine import Interpreter, SyncInterpreter

    CTL["census"] = []
    if eng == 0:
        S = vthread.SCHED
        S.reset(0.0)
        CTL["clock"] = lambda: S.now
        it = SyncInterpreter(_machine(mkey))
        it.start()
        stopped = None
        for t, kind in stim:
            S.advance_to(t / 1000.0)
            if kind == "STOP":
                it.stop()
                stopped = S.now
                _log("stop", "stop")
            else:
                _log("send", kind)
                it.send(kind)
        S.advance_to(horizon / 1000.0)
        CTL["census"].append((S.now, len(S.live()), 0))
        if stopped is None:
            it.stop()
        return it, stopped
    import asyncio

    lp = vloop.VLoop()
    CTL["clock"] = lambda: lp.time()
    it = Interpreter(_machine(mkey))
    box: Dict[str, Any] = {"stopped": None}

    async def go() -> None:
        await it.start()
        for t, kind in stim:
            dt = t / 1000.0 - lp.time()
            if dt > 0:
                await asyncio.sleep(dt)
            if kind == "STOP":
                await it.stop()
                box["stopped"] = lp.time()
                _log("stop", "stop")
            else:
                _log("send", kind)
                await it.send(kind)
        if box["stopped"] is None:
            await it._event_queue.join()
        CTL["census"].append((lp.time(), _live_service_tasks(lp), _allowed(it)))
        dt = horizon / 1000.0 - lp.time()
        if dt > 0:
            await asyncio.sleep(dt)
        CTL["census"].append((lp.time(), _live_service_tasks(lp), _allowed(it)))
        if box["stopped"] is None:
            await it.stop()

    vloop.run(go(), lp)
    lp.close()
    return it, box["stopped"]


def _check(log: List[Any], fail: Any, stopped: Any) -> Optional[str]:
    # activations of W and the service start belonging to each
    acts: List[Dict[str, Any]] = []
    cur: Optional[Dict[str, Any]] = None
    for (t, kind, what) in log:
        if stopped is not None and t > stopped and kind in ("act", "svc.start"):
            return f"{kind} {what} at {t} after stop() returned at {stopped}"
        if kind == "act" and what[0] == "W.en":
            cur = {"enter": t, "exit": None, "starts": [], "handled": []}
            acts.append(cur)
        elif kind == "act" and what[0] == "W.ex":
            if cur is None:
                return "W exited while not active"
            cur["exit"] = t
            cur["closed"] = True
            last = cur
            cur = None
            CTL["_last_closed"] = last
        elif kind == "svc.start":
            n, inp = what
            if cur is None:
                return f"service start #{n} at {t} while W is not active"
            cur["starts"].append(n)
            if inp != {"k": 1}:
                return f"service start #{n} received input {inp!r}, declared {{'k': 1}}"
        elif kind == "act" and what[0] in ("done", "err"):
            # handler actions run as transition actions right after W's exit
            last = CTL.get("_last_closed")
            if last is None or last["exit"] != t:
                return f"{what[0]} handler ran at {t} but W was not being left by it"
            last["handled"].append(what)
    for i, a in enumerate(acts):
        # (an activation that is exited at the very instant it was entered may be cancelled before the
        #  service body ever runs: the async engine creates the task at entry and the body starts one
        #  loop iteration later - 0 starts are accepted there, never more than 1)
        instant = (a["exit"] is not None and a["exit"] == a["enter"]) or (a["exit"] is None and stopped is not None and stopped == a["enter"])
        if len(a["starts"]) > 1 or (len(a["starts"]) == 0 and not instant):
            return f"activation #{i} of W started the service {len(a['starts'])} times"
        if not a["starts"]:
            if a["handled"]:
                return f"activation #{i} of W never started its service but a completion handler ran: {a['handled']}"
            continue
        n = a["starts"][0]
        for nm, data in a["handled"]:
            want = f"boom-{n}" if nm == "err" else f"result-{n}"
            if data != want:
                return f"activation #{i} of W (service start #{n}) was driven by a completion carrying {data!r} (a result of another activation?)"
            if (nm == "err") != bool(fail):
                return f"activation #{i}: {nm} handler ran but the service {'raised' if fail else 'returned'}"
        if len(a["handled"]) > 1:
            return f"activation #{i} processed {len(a['handled'])} completions"
    # the completion of the CURRENT activation is processed: every finish whose activation was still
    # current at that instant and stays current until quiescence must have driven a handler
    finishes = {w: t for (t, k, w) in log if k == "svc.finish"}
    for i, a in enumerate(acts):
        n = a["starts"][0] if a["starts"] else None
        if n in finishes:
            tf = finishes[n]
            if a["exit"] is None and stopped is None:
                return f"activation #{i}: service #{n} finished at {tf} while W stayed active, but no handler ran"
    for (tc, live, allowed) in CTL.get("census", []):
        if live > allowed:
            return f"at {tc * 1000:.3f} ms {live} service task(s) alive, the configuration justifies {allowed}"
    return None


# ---------------------------------------------------------------------------
# several invocations at once: a list of invokes on one state, invokes in two
# parallel regions and on their parallel parent, one service source shared by
# two states, an id-less invoke, a handler that leaves its state while a sibling
# invocation of the same state is still running
# ---------------------------------------------------------------------------

OWNERS = {"a": "P", "b": "x", "c": "x", "b2": "u"}
MKINDS = ["LEAVE", "RE", "XRE", "NOP", "XBACK", "STOP"]


def _mk_svc(eng: int, src: str) -> Any:
    def key_of(event: Any) -> str:
        return str((event.payload.get("input") or {}).get("k"))

    def times(k: str) -> Any:
        return CTL["cs"][k]

    if eng == 0:
        def svc(interp: Any, ctx: Any, event: Any) -> Any:
            k = key_of(event)
            CTL["starts"] += 1
            n = CTL["starts"]
            _log("svc.start", (k, n, src, dict(event.payload.get("input") or {})))
            _log("svc.finish", (k, n))
            if CTL["fails"][k]:
                raise SvcError(f"boom-{k}-{n}")
            return f"result-{k}-{n}"

        return svc

    async def asvc(interp: Any, ctx: Any, event: Any) -> Any:
        import asyncio

        k = key_of(event)
        CTL["starts"] += 1
        n = CTL["starts"]
        _log("svc.start", (k, n, src, dict(event.payload.get("input") or {})))
        try:
            await asyncio.sleep(times(k) / 1000.0)
        except asyncio.CancelledError:
            _log("svc.cancelled", (k, n))
            raise
        _log("svc.finish", (k, n))
        if CTL["fails"][k]:
            raise SvcError(f"boom-{k}-{n}")
        return f"result-{k}-{n}"

    return asvc


def mi_config() -> Dict[str, Any]:
    def inv(src: str, k: str, iid: Optional[str], target: Optional[str]) -> Dict[str, Any]:
        d: Dict[str, Any] = {"src": src, "input": {"k": k}, "onDone": {"actions": [f"{k}.done"]}, "onError": {"actions": [f"{k}.err"]}}
        if iid:
            d["id"] = iid
        if target:
            d["onDone"]["target"] = target
            d["onError"]["target"] = target
        return d

    return {
        "id": "m", "initial": "P",
        "states": {
            "P": {"type": "parallel", "entry": ["P.en"], "exit": ["P.ex"], "invoke": [inv("svcA", "a", "a", None)],
                  "on": {"LEAVE": {"target": "I", "actions": ["slow"]}, "RE": {"target": "P", "reenter": True}, "NOP": {"actions": ["slow"]}},
                  "states": {
                      "R1": {"initial": "x", "states": {
                          "x": {"entry": ["x.en"], "exit": ["x.ex"],
                                "invoke": [inv("svcB", "b", "b", "y"), inv("svcC", "c", None, None)],
                                "on": {"XRE": {"target": "x", "reenter": True}}},
                          "y": {"on": {"XBACK": "x"}}}},
                      "R2": {"initial": "u", "states": {
                          "u": {"entry": ["u.en"], "exit": ["u.ex"], "invoke": inv("svcB", "b2", "b2", None)}}},
                  }},
            "I": {"on": {"BACK": "P", "RE": "P"}},
        },
    }


def _mi_machine(eng: int) -> Any:
    key = f"IM4{eng}"
    m = _M.get(key)
    if m is None:
        from xstate_statemachine import create_machine

        env.install()
        names = ["P.en", "P.ex", "x.en", "x.ex", "u.en", "u.ex"] + [f"{k}.{h}" for k in OWNERS for h in ("done", "err")]
        acts = {n: _act(n) for n in names}
        acts["slow"] = _slow_sync if eng == 0 else _slow_async
        m = create_machine(mi_config(), logic=make_logic(actions=acts, services={s: _mk_svc(eng, s) for s in ("svcA", "svcB", "svcC")}))
        env.pin_hashes(m)
        _M[key] = m
    return m


def _check_multi(log: List[Any], stopped: Any) -> Optional[str]:
    """Sequential reading of the log: per owner state the list of activations; every service of the owner starts
    exactly once per activation with its declared input and source; a handler action carries the outcome of THE start
    that belongs to the owner's current activation, at most once; results of exited activations drive nothing; a
    service that finished while its owner stays active to the end has driven its handler."""
    acts: Dict[str, List[Dict[str, Any]]] = {o: [] for o in set(OWNERS.values())}
    cur: Dict[str, Optional[Dict[str, Any]]] = {o: None for o in acts}
    src_of = {"a": "svcA", "b": "svcB", "c": "svcC", "b2": "svcB"}
    prev_act: Optional[Tuple[Any, Any]] = None
    for (t, kind, what) in log:
        if stopped is not None and t > stopped and kind in ("act", "svc.start"):
            return f"{kind} {what} at {t} after stop() returned at {stopped}"
        if kind == "act" and what[0].endswith(".en") and what[0][:-3] in acts:
            o = what[0][:-3]
            if cur[o] is not None:
                return f"{o} entered while already active"
            cur[o] = {"enter": t, "exit": None, "starts": {}, "handled": {}}
            acts[o].append(cur[o])
        elif kind == "act" and what[0].endswith(".ex") and what[0][:-3] in acts:
            o = what[0][:-3]
            if cur[o] is None:
                return f"{o} exited while not active"
            cur[o]["exit"] = t       # type: ignore[index]
            cur[o] = None
        elif kind == "svc.start":
            k, n, src, inp = what
            if k not in OWNERS:
                return f"a service started with an undeclared input {inp!r}"
            o = OWNERS[k]
            if cur[o] is None:
                return f"service {k} start #{n} at {t} while {o} is not active"
            if inp != {"k": k} or src != src_of[k]:
                return f"service {k} start #{n}: source {src} input {inp!r}, declared {src_of[k]} / {{'k': {k!r}}}"
            cur[o]["starts"].setdefault(k, []).append(n)       # type: ignore[index]
        elif kind == "act" and "." in what[0] and what[0].split(".")[1] in ("done", "err") and what[0].split(".")[0] in OWNERS:
            k, h = what[0].split(".")
            o = OWNERS[k]
            a = cur[o]
            if a is None and k == "b" and prev_act is not None and prev_act[0] == "x.ex" and prev_act[1] == t:
                a = acts[o][-1]                 # b's handlers leave x: x.ex is the action logged just before them
            if a is None:
                return f"handler {what[0]} ran at {t} while {o} was not active (result of an exited activation?)"
            ns = a["starts"].get(k, [])
            data = what[1]
            ok_data = [f"boom-{k}-{n}" if h == "err" else f"result-{k}-{n}" for n in ns]
            if data not in ok_data:
                return f"handler {what[0]} at {t} carried {data!r}; the current activation of {o} started {k} as #{ns} (a result of another activation or service?)"
            if (h == "err") != bool(CTL["fails"][k]):
                return f"handler {what[0]} ran but the service {'raised' if CTL['fails'][k] else 'returned'}"
            a["handled"][k] = a["handled"].get(k, 0) + 1
            if a["handled"][k] > 1:
                return f"activation of {o}: completion of {k} processed {a['handled'][k]} times"
        if kind == "act":
            prev_act = (what[0], t)
    finishes = {(w[0], w[1]): t for (t, k, w) in log if k == "svc.finish"}
    for o, lst in acts.items():
        for i, a in enumerate(lst):
            instant = (a["exit"] is not None and a["exit"] == a["enter"]) or (a["exit"] is None and stopped is not None and stopped == a["enter"])
            for k in (kk for kk, oo in OWNERS.items() if oo == o):
                ns = a["starts"].get(k, [])
                if len(ns) > 1 or (len(ns) == 0 and not instant):
                    return f"activation #{i} of {o} started service {k} {len(ns)} times"
                if ns and (k, ns[0]) in finishes and a["exit"] is None and stopped is None and not a["handled"].get(k):
                    return f"activation #{i} of {o}: service {k} #{ns[0]} finished at {finishes[(k, ns[0])]} while {o} stayed active, but no handler ran"
    for (tc, live, allowed) in CTL.get("census", []):
        if live > allowed:
            return f"at {tc * 1000:.3f} ms {live} service task(s) alive, the configuration justifies at most {allowed}"
    return None


def multi_invoke(c2: int, t1: int, f2: bool) -> bool:
    """
    pre: 0 <= c2 <= 30
    pre: 0 <= t1 <= 40
    pre: gate('multi_invoke', c2=c2, t1=t1, f2=f2)
    post: _
    """
    a = P.get("a", 8)               # duration of the slow action and distance of the second stimulus: fixed per item (the
    t2 = t1 + P.get("gap", 3)       # async path tree did not exhaust with five symbolic instants on this machine)
    eng = P["eng"]
    c1 = P.get("c1", 6)        # completion time of a and b2 and outcome of a, b2, c: fixed per item (the async path tree
    f1 = P.get("f1", False)    # did not exhaust with seven symbolic quantities)
    stim = [(t1, P["k1"])] + ([(t2, P["k2"])] if P["k1"] != "STOP" else [])
    # a and b2 complete after c1 ms, b after c2 ms, c (the id-less second invoke of x) 4 ms after b
    CTL.update({"cs": {"a": c1, "b2": c1, "b": c2, "c": c2 + 4}, "fails": {"a": f1, "b2": f1, "b": f2, "c": f1},
                "a": a, "log": [], "starts": 0, "owners": OWNERS})
    try:
        _mi_machine(eng)
        it, stopped = _run(eng, f"IM4{eng}", stim, 120)
        why = _check_multi(CTL["log"], stopped)
    finally:
        CTL["owners"] = None
    if why:
        _note(f"{'sync' if eng == 0 else 'async'} c1={c1} c2={c2} a={a} f1={bool(f1)} f2={bool(f2)} stimuli={[(int(t), k) for t, k in stim]}: {why}; log="
              + str([(round(float(t) * 1000, 3), k, w) for t, k, w in CTL['log']]))
    return verdict(why is None)


def invoke_schedule(c: int, a: int, t1: int, t2: int, fail: bool) -> bool:
    """
    pre: 0 <= c <= 40 and 0 <= a <= 40
    pre: 0 <= t1 <= t2 <= 60
    pre: gate('invoke_schedule', c=c, a=a, t1=t1, t2=t2, fail=fail)
    post: _
    """
    eng = P["eng"]
    stim = [(t1, P["k1"])] + ([(t2, P["k2"])] if P["k1"] != "STOP" else [])
    CTL.update({"c": c, "a": a, "fail": fail, "log": [], "starts": 0, "_last_closed": None})
    form = P.get("form", 0)
    it, stopped = _run(eng, f"IMf{form}_{eng}" if form else f"IM{eng}", stim, 150)
    why = _check(CTL["log"], fail, stopped)
    if why:
        _note(f"{'sync' if eng == 0 else 'async'} c={c} a={a} fail={bool(fail)} stimuli={stim}: {why}; log="
              + str([(round(float(t) * 1000, 3), k, w) for t, k, w in CTL['log']]))
    return verdict(why is None)


def no_handler(eng: int, fail: bool, c: int) -> bool:
    """
    pre: 0 <= eng <= 1
    pre: 0 <= c <= 20
    pre: gate('no_handler', eng=eng)
    post: _
    """
    CTL.update({"c": c, "a": 0, "fail": fail, "log": [], "starts": 0, "_last_closed": None})
    it, stopped = _run(eng, f"IM2{eng}", [(30, "NOP"), (40, "LEAVE")], 100)
    ok = True
    if fail:
        if it.status != "stopped" and it.status != "error":
            ok = False
        statuses = CTL.get("status_after", None)
        if not isinstance(it.error, SvcError):
            _note(f"failing service without onError: interpreter.error = {it.error!r}")
            ok = False
        # events after the failure are ignored: W stays active, no slow action ran
        if any(k == "act" and w[0] in ("slow.begin", "I.en") for _t, k, w in CTL["log"]):
            _note("events were processed after the interpreter entered the error status")
            ok = False
    else:
        if it.error is not None:
            _note(f"service returned normally but interpreter.error = {it.error!r}")
            ok = False
        if not any(k == "act" and w[0] == "done" for _t, k, w in CTL["log"]):
            _note("onDone handler did not run")
            ok = False
    return verdict(ok)


def child_machine(eng: int, need: int, ticks: int, what: int) -> bool:
    """
    pre: 0 <= eng <= 1
    pre: gate('child_machine', eng=eng)
    post: _
    """
    from xstate_statemachine import Interpreter, SyncInterpreter

    nd = 1 + pick(need, 3)
    nt = pick(ticks, 4)
    w = pick(what, 4)  # 0 nothing, 1 LEAVE, 2 RE, 3 STOP after the ticks
    CTL.update({"need": nd, "log": [], "starts": 0, "c": 0, "a": 0, "fail": False})
    CTL["clock"] = lambda: 0.0
    m = _machine(f"IM3{eng}")
    info: Dict[str, Any] = {}

    def kids(it: Any) -> List[Any]:
        return list(it._actors.values())

    if eng == 0:
        vthread.SCHED.reset(0.0)
        it = SyncInterpreter(m)
        try:
            it.start()
        except Exception as e:  # the sync engine spawns a non-blocking runner thread for machine invokes
            _note(f"start() raised {type(e).__name__}: {e}")
            return verdict(False)
        return verdict(True, nontrivial=False)  # sync machine-invoke uses a polling runner thread: outside the virtual model
    it = Interpreter(m)
    box: Dict[str, Any] = {"ok": True}

    async def go() -> None:
        import asyncio

        await it.start()
        await asyncio.sleep(0.02)
        first = kids(it)
        if len(first) != 1 or first[0].status != "running":
            _note(f"invoking a machine started {len(first)} child(ren): {[k.status for k in first]}")
            box["ok"] = False
            await it.stop()
            return
        kid = first[0]
        for _ in range(nt):
            await kid.send("TICK")
            await kid._event_queue.join()
        await asyncio.sleep(0.1)  # let the managing task observe completion
        finished = nt >= nd
        cfg = sorted(n.id for n in it._active_state_nodes)
        if finished:
            if cfg != ["m", "m.D"]:
                _note(f"child finished after {nt} ticks (needs {nd}) but parent is in {cfg}")
                box["ok"] = False
            if kids(it) or kid.status not in ("done", "stopped"):
                _note(f"finished child still registered/alive: actors={list(it._actors)} status={kid.status}")
                box["ok"] = False
        else:
            if cfg != ["m", "m.W"]:
                _note(f"child not finished ({nt} ticks, needs {nd}) but parent is in {cfg}")
                box["ok"] = False
            if w == 1:
                await it.send("LEAVE")
            elif w == 2:
                await it.send("RE")
            elif w == 3:
                await it.stop()
            if w in (1, 2):
                await it._event_queue.join()
                await asyncio.sleep(0.05)
            if w:
                if kid.status == "running":
                    _note(f"child still running after {['', 'LEAVE', 'RE', 'stop()'][w]}")
                    box["ok"] = False
                exp = 1 if w == 2 else 0
                if len(kids(it)) != exp:
                    _note(f"after {['', 'LEAVE', 'RE', 'stop()'][w]}: {len(kids(it))} registered children, expected {exp}")
                    box["ok"] = False
        if it.status != "stopped":
            await it.stop()
        await asyncio.sleep(0.05)
        if any(k.status == "running" for k in first + kids(it)):
            _note("a child interpreter is still running after the parent's stop()")
            box["ok"] = False

    common.drive(go())
    return verdict(box["ok"])


OBLIGATIONS = {"invoke_schedule": invoke_schedule, "no_handler": no_handler, "child_machine": child_machine, "multi_invoke": multi_invoke}
PROBES = {"invoke_schedule": [{"c": 10, "a": 30, "t1": 5, "t2": 6}, {"c": 1, "a": 0, "t1": 1, "t2": 1}, {"c": 5, "a": 10, "t1": 0, "t2": 2, "fail": True}]}


def items(tier: str, seed: int) -> List[Dict[str, Any]]:
    quick = tier == "quick"
    out: List[Dict[str, Any]] = []
    for eng in (0, 1):
        for k1 in KINDS:
            for k2 in (KINDS if k1 != "STOP" else KINDS[:1]):
                if quick and eng == 0 and (k1, k2) not in (("LEAVE", "BACK"), ("RE", "RE"), ("NOP", "RE"), ("STOP", "LEAVE"), ("RE", "STOP")):
                    continue
                out.append({"ob": "invoke_schedule", "params": {"eng": eng, "k1": k1, "k2": k2}, "timeout": 280 if quick else 1500,
                            "path_timeout": 40, "label": f"invoke_schedule[{'sync' if eng == 0 else 'async'},{k1},{k2}]"})
    # the asynchronous service in three further callable shapes (object with async __call__, plain def returning the
    # coroutine, functools.partial)
    for form in (1, 2, 3):
        for (k1, k2) in ([("NOP", "RE")] if quick else [("NOP", "RE"), ("LEAVE", "BACK"), ("RE", "STOP")]):
            out.append({"ob": "invoke_schedule", "params": {"eng": 1, "k1": k1, "k2": k2, "form": form}, "timeout": 280 if quick else 1500,
                        "path_timeout": 40, "label": f"invoke_schedule[async,{k1},{k2},form={form}]"})
    mq = [("LEAVE", "RE"), ("RE", "XRE"), ("XRE", "XRE"), ("NOP", "XRE"), ("NOP", "LEAVE"), ("XRE", "STOP"), ("XBACK", "XBACK"), ("NOP", "RE")]
    for eng in (0, 1):
        for k1 in MKINDS:
            for k2 in (MKINDS if k1 != "STOP" else MKINDS[:1]):
                if quick and ((k1, k2) not in mq or (eng == 0 and (k1, k2) not in mq[:3])):
                    continue
                for (c1, f1) in ([(6, False)] if quick or eng == 0 else [(6, False), (15, True)]):
                    for gap in ((3,) if quick or eng == 0 or c1 != 6 else (0, 3, 11)):
                        out.append({"ob": "multi_invoke", "params": {"eng": eng, "k1": k1, "k2": k2, "c1": c1, "f1": f1, "gap": gap, "a": 8},
                                    "timeout": 300 if quick else 900, "path_timeout": 60,
                                    "label": f"multi_invoke[{'sync' if eng == 0 else 'async'},{k1},{k2},c1={c1},f1={int(f1)},gap={gap}]"})
    out.append({"ob": "no_handler", "params": {}, "timeout": 120, "label": "no_handler"})
    out.append({"ob": "child_machine", "params": {}, "timeout": 280, "label": "child_machine"})
    return out
