"""C20 - event descriptors: exact > partial (longest prefix first) > wildcard;
engine-internal events are matched by their exact handler only; a null
transition consumes the event at that state.

  descriptor_static  BaseInterpreter._matching_descriptors(on_map, event) on a
                     map with 2-3 *symbolic* keys and a symbolic event type,
                     against model.descriptor_ref
  descriptor_engine  SyncInterpreter/Interpreter.send(<symbolic event type>) on
                     a two-level machine whose every candidate is guarded by a
                     symbolic guard (a false guard = candidate not enabled), with
                     optional null (forbidden) entries: the marker that fires is
                     the one the reference selection nominates
"""
from __future__ import annotations

from typing import Any, Dict, List, Optional

from vf import env, model
from vf.kf import gate, verdict
from vf.logic import make_logic
from harness import common

PROPERTY = "C20"
P: Dict[str, Any] = {}
EXPLAIN: List[str] = []
EXPLANATION = (
    "C20 (event descriptors): CrossHair executes BaseInterpreter._matching_descriptors with symbolic key strings and a "
    "symbolic event type, and send() on a two-level machine with a symbolic event type and symbolic guard outcomes "
    "(_collect_eligible_transitions, _select_transitions, forbidden/null handling)."
)
NONTRIVIAL_RULE = "had at least one matching descriptor (static) / fired or was blocked by a candidate (engine)"
BOUNDS = {
    "descriptor_static": "2 or 3 pairwise distinct keys and an event type, each an arbitrary (unicode) str of <= L chars (L in the item label); the event - and in the 'prefixed key' items also the first key - optionally prefixed by one of '', 'done.', 'error.', 'after.', 'xstate.'",
    "descriptor_smt": "2 or 3 pairwise distinct keys and an event type, each a string of ANY length over z3's full character range (the number of keys is the only bound); decided by executing the AST of _matching_descriptors on z3 string terms (vf/ast2smt.py), one solver query per branch and one per return",
    "descriptor_engine": "fixed two-level machine (keys a, a.*, a.b, a.b.*, *, done.x at child and root, two guarded candidates per key, optional null entry per variant); event type = optional internal prefix + arbitrary str of <= L chars; guard outcomes: 5 shared booleans + one three-valued (true/false/raise) guard, read lazily",
}
ASSUMPTIONS = [
    "descriptor_static passes a duck-typed linear-scan mapping (KeyMap) instead of a dict, because a real dict keyed by symbolic strings forces z3 to realise them; keys are pairwise distinct as in a dict",
]
WALL_BUDGET = {"quick": 600.0, "thorough": 2400.0}


def set_params(p: Dict[str, Any]) -> None:
    global P
    P = p
    if p.get("variant") is not None:
        _machine(p["variant"])


def _note(m: str) -> None:
    EXPLAIN.append(m)


class KeyMap:
    """Insertion-ordered mapping with linear scans (no hashing of keys)."""

    def __init__(self, keys: List[str]) -> None:
        self._keys = keys

    def __contains__(self, k: Any) -> bool:
        for x in self._keys:
            if x == k:
                return True
        return False

    def __iter__(self) -> Any:
        return iter(self._keys)

    def __len__(self) -> int:
        return len(self._keys)

    def __bool__(self) -> bool:
        return len(self._keys) > 0

    def __getitem__(self, k: Any) -> Any:
        for x in self._keys:
            if x == k:
                return []
        raise KeyError(k)

    def keys(self) -> Any:
        return list(self._keys)

    def items(self) -> Any:
        return [(k, []) for k in self._keys]


def _alpha_ok(s: str, alpha: str) -> bool:
    for ch in s:
        if ch not in alpha:
            return False
    return True


_PREFIXES = ["", "done.", "error.", "after.", "xstate."]


def descriptor_static(k1: str, k2: str, k3: str, pre: int, tail: str, kpre: int = 0) -> bool:
    """
    pre: len(k1) <= P['L'] and len(k2) <= P['L'] and len(k3) <= P['L'] and len(tail) <= P['L']
    pre: len(k1) > 0 and len(k2) > 0
    pre: k1 != k2 and (P.get('nkeys', 2) < 3 or (k1 != k3 and k2 != k3))
    pre: gate('descriptor_static', k1=k1, k2=k2, k3=k3, pre=pre, tail=tail)
    post: _
    """
    from xstate_statemachine.base_interpreter import BaseInterpreter

    # the first key may itself carry an engine-internal prefix ('done.*', 'error.x.*', ...): a user-level partial
    # descriptor that must not catch engine-raised events
    kp = _PREFIXES[common.pick(kpre, len(_PREFIXES))] if P.get("kprefix") else ""
    if kp and kp + k1 == k2:
        return verdict(True, nontrivial=False)
    k1 = kp + k1
    keys = [k1, k2]
    if P.get("nkeys", 2) >= 3:
        if len(k3) == 0:
            return verdict(True, nontrivial=False)
        keys.append(k3)
    ev = _PREFIXES[common.pick(pre, len(_PREFIXES))] + tail
    got = BaseInterpreter._matching_descriptors(KeyMap(keys), ev)
    want = model.descriptor_ref(keys, ev)
    g = model.dedup(list(got))
    w = model.dedup(want)
    ok = len(g) == len(w)
    if ok:
        for i in range(len(g)):
            if g[i] != w[i]:
                ok = False
                break
    if not ok:
        _note(f"_matching_descriptors({keys!r}, {ev!r}) = {list(got)!r}, reference {want!r}")
    return verdict(ok, nontrivial=len(w) > 0)


# ---------------------------------------------------------------------------
# engine-level
# ---------------------------------------------------------------------------

_KEYS = ["a", "a.*", "a.b", "a.b.*", "*", "done.x"]
_MACHINES: Dict[int, Any] = {}
# variant -> (level, key) carrying a null entry placed FIRST in that key's list? A
# null entry replaces the whole value of the key (on: {k: None}).
_VARIANTS = [None, ("C", "a"), ("C", "a.*"), ("C", "*"), ("C", "a.b"), ("m", "a.*"), ("C", "done.x")]


def _gname(level: str, ki: int, j: int) -> str:
    return f"g_{level}_{ki}_{j}"


def _machine(variant: int) -> Any:
    m = _MACHINES.get(variant)
    if m is not None:
        return m
    from xstate_statemachine import create_machine

    env.install()
    null_at = _VARIANTS[variant]

    def on_for(level: str) -> Dict[str, Any]:
        on: Dict[str, Any] = {}
        for ki, k in enumerate(_KEYS):
            if null_at == (level, k):
                on[k] = None
                continue
            on[k] = [
                {"guard": _gname(level, ki, 0), "actions": [{"type": "tr", "params": {"s": f"{level}:{k}:0"}}]},
                {"guard": _gname(level, ki, 1), "actions": [{"type": "tr", "params": {"s": f"{level}:{k}:1"}}]},
            ]
        return on

    cfg = {"id": "m", "initial": "C", "on": on_for("m"), "states": {"C": {"on": on_for("C")}}}
    guards: Dict[str, Any] = {}
    for level in ("m", "C"):
        for ki in range(len(_KEYS)):
            for j in range(2):
                guards[_gname(level, ki, j)] = _mk_guard(_gname(level, ki, j))
    m = create_machine(cfg, logic=make_logic(guards=guards))
    env.pin_hashes(m)
    _MACHINES[variant] = m
    return m


GV: Dict[str, Any] = {}
GCALLS: List[str] = []


def _mk_guard(name: str) -> Any:
    def g(ctx: Any, event: Any) -> bool:
        GCALLS.append(name)
        v = GV["fn"](name)
        if v == 2:
            raise ValueError("guard raises")
        return v == 1

    return g


def _guard_val(bools: List[Any], tri: Any) -> Any:
    """Lazy symbolic outcome per guard: 0 false, 1 true, 2 raise. To keep the
    number of valuations at 2^5*3, guard instance (level,key,j) reads boolean
    (2*ki + j + 3*[level is root]) mod 5; the first candidate of key 'a.*' at
    the child is three-valued (it may raise)."""
    cache: Dict[str, int] = {}

    def fn(name: str) -> int:
        if name in cache:
            return cache[name]
        _, level, ki, j = name.split("_")
        if level == "C" and int(ki) == 1 and int(j) == 0:
            v = common.pick(tri, 3)
        else:
            idx = (int(ki) * 2 + int(j) + (0 if level == "C" else 3)) % len(bools)
            v = 1 if bools[idx] else 0
        cache[name] = v
        return v

    fn.cache = cache  # type: ignore[attr-defined]
    return fn


def _select_ref(null_at: Any, ev: str, gfn: Any) -> Optional[str]:
    """Reference nominee: walk child then root; at each level candidates in
    descriptor order then declaration order; a null entry stops the walk (at
    that point); the first enabled candidate at the deepest level that has
    one wins."""
    if len(ev) == 0:
        return None
    for level in ("C", "m"):
        blocked = False
        winner: Optional[str] = None
        for k in model.dedup(model.descriptor_ref(_KEYS, ev)):
            ki = _KEYS.index(k)
            if null_at == (level, k):
                blocked = True
                break
            for j in range(2):
                if winner is None and gfn(_gname(level, ki, j)) == 1:
                    winner = f"{level}:{k}:{j}"
            if winner is not None:
                break
        if winner is not None:
            return winner
        if blocked:
            return None
    return None


def descriptor_engine(pre: int, tail: str, b0: bool, b1: bool, b2: bool, b3: bool, b4: bool, tri: int) -> bool:
    """
    pre: len(tail) <= P['L']
    pre: gate('descriptor_engine', pre=pre, tail=tail)
    post: _
    """
    from xstate_statemachine import Interpreter, SyncInterpreter
    from xstate_statemachine.events import Event

    variant = P["variant"]
    eng = P["eng"]
    machine = _machine(variant)
    null_at = _VARIANTS[variant]
    ev = _PREFIXES[common.pick(pre, len(_PREFIXES))] + tail
    if len(ev) == 0:
        return verdict(True, nontrivial=False)
    gfn = _guard_val([b0, b1, b2, b3, b4], tri)
    GV["fn"] = gfn
    del GCALLS[:]
    rec: List[Any] = []
    if eng == 0:
        it = SyncInterpreter(machine)
        it.__dict__["_rec"] = rec
        it.start()
        it.send(Event(ev))
    else:
        it = Interpreter(machine)
        it.__dict__["_rec"] = rec

        async def go() -> None:
            await it.start()
            await it.send(Event(ev))
            await it._event_queue.join()
            await it.stop()

        common.drive(go())
    fired = [r[1] for r in rec if r[0] == "tr"]
    want = _select_ref(null_at, ev, gfn)
    ok = fired == ([want] if want is not None else [])
    if not ok:
        _note(f"event {ev!r} variant null_at={null_at}: fired {fired}, reference nominee {want}; guards={dict(gfn.cache)}")
    # a guard is evaluated at most once per selection pass
    if ok and len(GCALLS) != len(set(GCALLS)):
        _note(f"guard evaluated twice in one pass: {GCALLS}")
        ok = False
    return verdict(ok, nontrivial=want is not None or null_at is not None)


# ---------------------------------------------------------------------------
# unbounded string length: AST -> z3 (vf/ast2smt.py), no CrossHair
# ---------------------------------------------------------------------------

def descriptor_smt(k1: str, k2: str, k3: str, ev: str) -> bool:
    """Native body (used by the replay of a solver model): the real function on a real dict against the reference.
    The deciding run is ``_smt_descriptor`` below (attribute ``smt_runner``), which executes the function's AST on z3
    string terms of unbounded length.

    post: _
    """
    from xstate_statemachine.base_interpreter import BaseInterpreter

    keys = [k1, k2] + ([k3] if P.get("nkeys", 2) >= 3 else [])
    if len(set(keys)) != len(keys):
        return verdict(True, nontrivial=False)
    got = BaseInterpreter._matching_descriptors({k: [] for k in keys}, ev)
    want = model.descriptor_ref(keys, ev)
    g = model.dedup(list(got))
    w = model.dedup(want)
    ok = g == w
    if not ok:
        _note(f"_matching_descriptors({keys!r}, {ev!r}) = {list(got)!r}, reference {want!r}")
    return verdict(ok, nontrivial=len(w) > 0)


def _smt_spec(z3: Any, keys: List[Any], e: Any, res: List[Any]) -> Any:
    """The statement of C20's matching clause as a formula over the k keys, the event and the returned list (any
    length of strings): membership = exactly the matching keys; order of first occurrences = identical key, then
    partials by strictly decreasing length, then '*'."""
    internal = z3.Or(*[z3.PrefixOf(z3.StringVal(p), e) for p in model.INTERNAL_PREFIXES])
    star = z3.StringVal("*")
    m = []
    for k in keys:
        pre = z3.SubString(k, 0, z3.Length(k) - 2)
        partial = z3.And(k != star, z3.SuffixOf(z3.StringVal(".*"), k),
                         z3.Or(e == pre, z3.PrefixOf(z3.Concat(pre, z3.StringVal(".")), e)))
        m.append(z3.And(z3.Length(e) > 0, z3.Or(k == e, z3.And(z3.Not(internal), z3.Or(partial, k == star)))))
    cl = []
    for r in res:
        cl.append(z3.Or(*[z3.And(r == k, mi) for k, mi in zip(keys, m)]))
    for k, mi in zip(keys, m):
        cl.append(z3.Implies(mi, z3.Or(*[r == k for r in res]) if res else z3.BoolVal(False)))

    def rank(x: Any) -> Any:
        return z3.If(x == e, 0, z3.If(x == star, 2, 1))

    def less(a: Any, b: Any) -> Any:
        return z3.Or(rank(a) < rank(b), z3.And(rank(a) == 1, rank(b) == 1, z3.Length(a) > z3.Length(b)))

    def first(j: int) -> Any:
        return z3.And(*[res[j] != res[i] for i in range(j)]) if j else z3.BoolVal(True)

    for j in range(len(res)):
        for j2 in range(j + 1, len(res)):
            cl.append(z3.Implies(z3.And(first(j), first(j2)), less(res[j], res[j2])))
    return z3.And(*cl) if cl else z3.BoolVal(True)


def _smt_descriptor(fn: Any, timeout: float = 60.0, per_path_timeout: float = 20.0) -> Dict[str, Any]:
    import z3

    from vf import ast2smt, kf
    from xstate_statemachine.base_interpreter import BaseInterpreter

    n = 3 if P.get("nkeys", 2) >= 3 else 2
    ks = [z3.String(f"k{i + 1}") for i in range(n)]
    e = z3.String("ev")
    assumptions = [z3.Distinct(*ks)]
    twin = kf.TWIN

    def on_return(ex: Any, value: Any) -> Any:
        if not isinstance(value, list) or not all(isinstance(v, str) or z3.is_string(v) for v in value):
            raise ast2smt.Unsupported("return value is not a list of strings")
        res = [z3.StringVal(v) if isinstance(v, str) else v for v in value]
        if twin:
            r, mdl = ex.check()
            return mdl if r == "sat" else None
        neg = z3.Not(_smt_spec(z3, ks, e, res))
        printable = [z3.InRe(v, z3.Star(z3.Range(" ", "~"))) for v in ks + [e]]
        r, mdl = ex.check(neg, *printable)
        if r == "sat":
            return mdl
        r, mdl = ex.check(neg)
        if r == "unknown":
            raise ast2smt.Unsupported("both solvers answered unknown on the property query")
        return mdl if r == "sat" else None

    out = ast2smt.explore(BaseInterpreter._matching_descriptors,
                          lambda: {"on_map": ast2smt.SymMap(list(ks)), "event_type": e}, assumptions, on_return, timeout,
                          names=[str(k) for k in ks] + ["ev"])
    res: Dict[str, Any] = {"obligation": "descriptor_smt", "verdict": out["verdict"], "paths": out["paths"],
                           "z3_queries": out["z3_queries"], "solver_s": out["solver_s"], "wall_s": out["wall_s"],
                           "message": out["message"] or f"AST->SMT of _matching_descriptors: {out['paths']} paths, every return checked against the spec formula (strings of any length, {n} keys); {out.get('cvc5_queries', 0)} queries went to cvc5 after z3 answered unknown",
                           "cex": None}
    if out["verdict"] == "refuted":
        mdl = out["model"]
        cex = {f"k{i + 1}": ast2smt.model_str(mdl, ks[i]) for i in range(n)}
        cex.setdefault("k3", "")
        cex["ev"] = ast2smt.model_str(mdl, e)
        res["cex"] = cex
        kf.HITS["oracle"] += 1
    else:
        kf.HITS["oracle"] += out["paths"]
        kf.HITS["nontrivial"] += out["paths"]
    return res


descriptor_smt.smt_runner = _smt_descriptor  # type: ignore[attr-defined]

OBLIGATIONS = {"descriptor_static": descriptor_static, "descriptor_engine": descriptor_engine, "descriptor_smt": descriptor_smt}


def items(tier: str, seed: int) -> List[Dict[str, Any]]:
    quick = tier == "quick"
    out: List[Dict[str, Any]] = []
    out.append({"ob": "descriptor_static", "params": {"L": 3 if quick else 4, "nkeys": 2}, "timeout": 200 if quick else 1500,
                "path_timeout": 40, "label": f"descriptor_static[2keys,L={3 if quick else 4}]"})
    out.append({"ob": "descriptor_static", "params": {"L": 2 if quick else 3, "nkeys": 3}, "timeout": 200 if quick else 1800,
                "path_timeout": 40, "label": f"descriptor_static[3keys,L={2 if quick else 3}]"})
    out.append({"ob": "descriptor_static", "params": {"L": 2 if quick else 3, "nkeys": 2, "kprefix": True}, "timeout": 300 if quick else 1800,
                "path_timeout": 40, "label": f"descriptor_static[2keys,prefixed key,L={2 if quick else 3}]"})
    out.append({"ob": "descriptor_smt", "params": {"nkeys": 2}, "timeout": 200, "label": "descriptor_smt[2keys,any length]"})
    out.append({"ob": "descriptor_smt", "params": {"nkeys": 3}, "timeout": 300 if quick else 1200, "label": "descriptor_smt[3keys,any length]"})
    L = 3 if quick else 5
    for v in range(len(_VARIANTS)):
        for eng in (0, 1):
            if quick and eng == 1 and v not in (0, 2):
                continue
            out.append({"ob": "descriptor_engine", "params": {"variant": v, "L": L, "eng": eng}, "timeout": 240 if quick else 1500,
                        "path_timeout": 40, "label": f"descriptor_engine[null_at={_VARIANTS[v]},eng={'sync' if eng == 0 else 'async'},L={L}]"})
    return out
