"""C14 - interpreter lifecycle is a strict state machine; stop() releases everything.

  lifecycle_seq  a symbolic sequence of lifecycle operations
        START | SEND(GO | SPAWN | DSEND | FIN | FAIL) | STOP | RESTORE | ADV
      on the lifecycle machine LM (an `after` timer, a delayed self-send with an
      id, an invoked service, a spawned child actor that owns a heartbeat
      timer), under virtual time. Oracle = the lifecycle automaton:
        * status only moves uninitialized -> running -> (done | error) ->
          stopped, or running -> stopped;
        * start() is idempotent while running (and after done/error), raises a
          library error on a stopped interpreter, resumes a restored one;
        * send() on a done / failed / stopped / not yet started interpreter
          changes nothing and queues nothing;
        * stop() is idempotent in every status, and once it returned: no timer
          task / thread, delayed send, service task or descendant actor is
          alive, and advancing time by 100 ms produces no further activity.
"""
from __future__ import annotations

from typing import Any, Dict, List, Optional, Tuple

from vf import env, model, vloop, vthread
from vf.kf import gate, verdict
from vf.logic import make_logic
from harness import common
from harness.common import pick

PROPERTY = "C14"
P: Dict[str, Any] = {}
EXPLAIN: List[str] = []
EXPLANATION = (
    "C14 (lifecycle): CrossHair executes start()/send()/stop()/get_snapshot()/from_snapshot() of both engines on a "
    "lifecycle machine under a virtual clock with a symbolic sequence of lifecycle operations; the oracle is the status "
    "automaton plus a census of live timer/service/delayed-send tasks or threads and of descendant actors after stop()."
)
NONTRIVIAL_RULE = "executed a sequence containing at least one start() and one stop() or terminal status"
BOUNDS = {
    "lifecycle_seq": "machine LM; operation sequences of length 3-4 (quick) / 3-5 (thorough), the first one or two operations fixed per item over 11 operations; both engines (sync: blocking child spawn, virtual threads)",
}
ASSUMPTIONS = [
    "virtual time (VLoop / vthreading) as in C08; the census counts asyncio tasks of the virtual loop and pending virtual threads, not OS threads",
    "stop() issued from another thread in the middle of a macrostep is outside (operations are sequential)",
]
WALL_BUDGET = {"quick": 900.0, "thorough": 3300.0}

OPS = ["START", "GO", "SPAWN", "DSEND", "FIN", "FAIL", "STOP", "RESTORE", "ADV", "RUDE", "KFIN", "QGO", "QRE", "HALF"]
SENDS = ("GO", "SPAWN", "DSEND", "FIN", "FAIL", "RUDE", "KFIN", "QGO", "QRE", "HALF")
# HALF: a transition into the parallel state Z whose first region arms an `after` timer and whose second region invokes an
# unregistered service: the transition aborts half-way and is rolled back (the sync engine raises from send()). Whatever the
# half-entered states armed is something "that interpreter created": stop() must release it like everything else.
# QGO / QRE: send GO / REA (re-entering self-transition of A, restarts its service under the SAME owner) WITHOUT waiting for
# the queue to drain, so that the next operation (stop(), restore, ...) meets an event that is still queued (async engine)
WIRE = {"QGO": "GO", "QRE": "REA"}
CTL: Dict[str, Any] = {}
_M: Dict[str, Any] = {}


def _note(m: str) -> None:
    EXPLAIN.append(m)


def _log(what: str) -> None:
    CTL["log"].append((CTL["clock"](), what))


def _act(name: str) -> Any:
    def f(i: Any, c: Any, e: Any, a: Any) -> None:
        _log(name)

    return f


async def _svc_async(i: Any, c: Any, e: Any) -> Any:
    import asyncio

    _log("svc.start")
    await asyncio.sleep(0.03)
    _log("svc.finish")
    return 1


def _svc_sync(i: Any, c: Any, e: Any) -> Any:
    _log("svc.start")
    _log("svc.finish")
    return 1


def _boom(i: Any, c: Any, e: Any) -> Any:
    raise RuntimeError("service failed")


async def _rude_async(i: Any, c: Any, e: Any) -> Any:
    """A service that answers cancellation with an ordinary exception."""
    import asyncio

    try:
        await asyncio.sleep(0.03)
    except asyncio.CancelledError:
        raise ConnectionError("connection dropped while cancelling")
    return 2


def _rude_sync(i: Any, c: Any, e: Any) -> Any:
    return 2


async def _hb_async(i: Any, c: Any, e: Any) -> Any:
    """Root-level heartbeat of the child: outlives the child's completion
    unless the child is stopped."""
    import asyncio

    while True:
        await asyncio.sleep(0.01)
        _log("kid.hb")


def _hb_sync(i: Any, c: Any, e: Any) -> Any:
    return None


def _machines(eng: int) -> Any:
    key = f"LM{eng}"
    m = _M.get(key)
    if m is None:
        from xstate_statemachine import create_machine
        from xstate_statemachine import actions as A

        env.install()
        acts = {n: _act(n) for n in ("A.en", "B.en", "X.en", "late", "svc.done", "kid.tick", "kid.en")}
        kid = create_machine({
            "id": "kid", "initial": "beat",
            "invoke": {"src": "hb", "id": "hb"},
            "on": {"KFIN": "#kid.fin"},
            "states": {"beat": {"entry": ["kid.en"], "after": {"10": {"target": "beat", "reenter": True, "actions": ["kid.tick"]}}},
                       "fin": {"type": "final"}},
        }, logic=make_logic(actions=acts, services={"hb": _hb_sync if eng == 0 else _hb_async}))
        env.pin_hashes(kid)
        spawn = {"type": "spawn_blocking_kid", "params": {"id": "k1", "systemId": "sysK"}} if eng == 0 else A.spawn_child("kid", actor_id="k1", system_id="sysK")
        cfg = {
            "id": "m", "initial": "A",
            "states": {
                "A": {
                    "entry": ["A.en"], "after": {"50": "B"},
                    "invoke": {"src": "svc", "id": "s1", "onDone": {"actions": ["svc.done"]}},
                    "on": {
                        "GO": "B", "SPAWN": {"actions": [spawn]},
                        "DSEND": {"actions": [A.raise_({"type": "LATE"}, delay=40)]},
                        "LATE": {"actions": ["late"]},
                        "FIN": "F", "FAIL": "X", "RUDE": "Y", "REA": {"target": "A", "reenter": True}, "HALF": "Z",
                        "KFIN": {"actions": [A.send_to("sysK", "KFIN")]},
                    },
                },
                "B": {"entry": ["B.en"], "after": {"20": "A"}, "on": {"LATE": {"actions": ["late"]}, "FIN": "F", "FAIL": "X"}},
                "F": {"type": "final"},
                "X": {"entry": ["X.en"], "invoke": {"src": "boom", "id": "s2"}},
                "Y": {"invoke": {"src": "rude", "id": "s3"}, "on": {"GO": "B"}},
                "Z": {"type": "parallel", "states": {
                    "r1": {"initial": "x", "states": {"x": {"after": {"70": "x2"}}, "x2": {}}},
                    "r2": {"initial": "y", "states": {"y": {"invoke": {"src": "nosuch", "id": "s4"}}}},
                }},
            },
        }
        m = create_machine(cfg, logic=make_logic(actions=acts, services={"svc": _svc_sync if eng == 0 else _svc_async, "boom": _boom, "kid": kid,
                                                                      "rude": _rude_sync if eng == 0 else _rude_async}))
        env.pin_hashes(m)
        _M[key] = m
    return m


def set_params(p: Dict[str, Any]) -> None:
    global P
    P = p
    vthread.install()
    _machines(0)
    _machines(1)


def _live_tasks(lp: Any) -> List[str]:
    return common.native(_live_native, lp)


def _live_native(lp: Any) -> List[str]:
    import asyncio

    out = []
    for t in asyncio.all_tasks(lp):
        if t.done():
            continue
        co = t.get_coro()
        nm = getattr(co, "__qualname__", getattr(co, "__name__", ""))
        if nm.endswith("go") or "run_until_complete" in nm:
            continue  # the harness task
        out.append(nm)
    return sorted(out)


ALLOWED = {
    "uninitialized": {"uninitialized", "running", "stopped", "done", "error"},
    "running": {"running", "done", "error", "stopped"},
    "done": {"done", "stopped"},
    "error": {"error", "stopped"},
    "stopped": {"stopped"},
}


def _snapshot_state(it: Any) -> Any:
    return (sorted(n.id for n in it._active_state_nodes), dict(it.context), it.status)


def _descendants(it: Any) -> List[Any]:
    out = []
    for a in it._actors.values():
        out.append(a)
        out.extend(_descendants(a))
    return out


def lifecycle_seq(o1: int, o2: int, o3: int) -> bool:
    """
    pre: gate('lifecycle_seq', o1=o1, o2=o2, o3=o3)
    post: _
    """
    eng = P["eng"]
    n = P["N"]
    prefix = list(P["prefix"])
    ops = prefix + [OPS[pick(o, len(OPS))] for o in [o1, o2, o3][: max(0, n - len(prefix))]]
    CTL["log"] = []
    if eng == 0:
        why = _run_sync(ops)
    else:
        why = _run_async(ops)
    if why:
        _note(f"{'sync' if eng == 0 else 'async'} ops={ops}: {why}")
    return verdict(why is None, nontrivial="START" in ops)


def _run_sync(ops: List[str]) -> Optional[str]:
    from xstate_statemachine import SyncInterpreter
    from xstate_statemachine.exceptions import XStateMachineError

    S = vthread.SCHED
    S.reset(0.0)
    CTL["clock"] = lambda: S.now
    m = _machines(0)
    it = SyncInterpreter(m)
    everyone: List[Any] = []
    for op in ops:
        before = it.status
        pre = _snapshot_state(it)
        nlog = len(CTL["log"])
        if op == "START":
            try:
                it.start()
                if before == "stopped":
                    return "start() on a stopped interpreter did not raise"
            except XStateMachineError:
                if before != "stopped":
                    return f"start() raised a library error in status {before}"
            if before in ("running", "done", "error") and (_snapshot_state(it) != pre or len(CTL["log"]) != nlog):
                return f"start() in status {before} is not idempotent: {pre} -> {_snapshot_state(it)}"
        elif op in SENDS:
            qlen = len(it._event_queue)     # (a transition aborted by HALF can leave the completion of a re-armed service queued)
            try:
                it.send(WIRE.get(op, op))
            except XStateMachineError:
                if op != "HALF":
                    raise
            if before != "running":
                if _snapshot_state(it) != pre or len(CTL["log"]) != nlog or len(it._event_queue) != qlen:
                    return f"send({op}) in status {before} had an effect: {pre} -> {_snapshot_state(it)}, queue {len(it._event_queue)}"
        elif op == "STOP":
            everyone.extend(_descendants(it))
            it.stop()
            if before == "uninitialized" and it.status != "uninitialized":
                return f"stop() before start() changed status to {it.status}"
            if before != "uninitialized" and it.status != "stopped":
                return f"stop() returned with status {it.status}"
            if before == "stopped" and len(CTL["log"]) != nlog:
                return "second stop() did something"
        elif op == "RESTORE":
            snap = common.native(it.get_snapshot)
            everyone.extend(_descendants(it))
            old = it
            it = common.native(SyncInterpreter.from_snapshot, snap, m)
            old_status = old.status
            if old.status not in ("stopped", "uninitialized"):
                old.stop()
            if it.status != old_status:
                return f"restored interpreter has status {it.status}, snapshot was taken in {old_status}"
            before = it.status
        elif op == "ADV":
            S.advance_by(0.015)
        if it.status not in ALLOWED[before]:
            return f"{op}: status moved {before} -> {it.status}"
        if it.status == "stopped" and op in ("STOP",):
            # census after stop()
            S_live = [t.name for t in S.live()]
            if S_live:
                return f"after stop(): virtual threads still pending: {S_live}"
            if it._scheduled_sends or it._after_events or it._pending_send_cancels:
                return f"after stop(): registries not empty: sends={list(it._scheduled_sends)} after={list(it._after_events)}"
            alive = [a.id for a in everyone + _descendants(it) if a.status == "running"]
            if alive:
                return f"after stop(): descendant actors still running: {alive}"
            if it._actors:
                return f"after stop(): children map not empty: {list(it._actors)}"
            n0 = len(CTL["log"])
            S.advance_by(0.1)
            if len(CTL["log"]) != n0:
                return f"activity after stop(): {CTL['log'][n0:]}"
    # final teardown must always be possible
    it.stop()
    return None


def _run_async(ops: List[str]) -> Optional[str]:
    import asyncio
    from xstate_statemachine import Interpreter
    from xstate_statemachine.exceptions import XStateMachineError

    lp = vloop.VLoop()
    CTL["clock"] = lambda: lp.time()
    m = _machines(1)
    box: Dict[str, Any] = {"why": None}

    async def settle(it: Any) -> None:
        # quiescence: the queue is drained, or its consumer is gone (status left 'running')
        for _ in range(200):
            if it._event_queue._unfinished_tasks == 0:
                break
            if it._event_loop_task is None or it._event_loop_task.done() or it.status != "running":
                break
            await asyncio.sleep(0)

    async def go() -> None:
        it = Interpreter(m)
        everyone: List[Any] = []
        prev = None
        for op in ops:
            if prev in WIRE and op != "STOP":
                await settle(it)     # an unsettled send only matters right before stop()
            prev = op
            before = it.status
            pre = _snapshot_state(it)
            nlog = len(CTL["log"])
            if op == "START":
                resumable = before in ("running", "done", "error") and it._event_loop_task is None
                try:
                    await it.start()
                    if before == "stopped":
                        box["why"] = "start() on a stopped interpreter did not raise"
                        return
                except XStateMachineError:
                    if before != "stopped":
                        box["why"] = f"start() raised a library error in status {before}"
                        return
                if before in ("running", "done", "error") and (_snapshot_state(it) != pre or len(CTL["log"]) != nlog):
                    box["why"] = f"start() in status {before} is not idempotent: {pre} -> {_snapshot_state(it)}"
                    return
                if it.status == "running" and not it.is_running:
                    box["why"] = "status is running after start() but no live event loop task"
                    return
            elif op in SENDS:
                qs = it._event_queue.qsize()
                await it.send(WIRE.get(op, op))
                if op not in WIRE:
                    await settle(it)
                if before != "running":
                    if before == "uninitialized":
                        pass  # the async engine queues events sent before start(); they are processed once it starts
                    elif _snapshot_state(it) != pre or len(CTL["log"]) != nlog or it._event_queue.qsize() != qs:
                        box["why"] = f"send({op}) in status {before} had an effect: {pre} -> {_snapshot_state(it)}, queue {it._event_queue.qsize()}"
                        return
            elif op == "STOP":
                everyone.extend(_descendants(it))
                await it.stop()
                if before == "uninitialized" and it.status != "uninitialized":
                    box["why"] = f"stop() before start() changed status to {it.status}"
                    return
                if before != "uninitialized" and it.status != "stopped":
                    box["why"] = f"stop() returned with status {it.status} (error={it.error!r})"
                    return
                if before == "stopped" and len(CTL["log"]) != nlog:
                    box["why"] = "second stop() did something"
                    return
            elif op == "RESTORE":
                snap = common.native(it.get_snapshot)
                everyone.extend(_descendants(it))
                old = it
                it = common.native(Interpreter.from_snapshot, snap, m)
                old_status = old.status
                if old.status not in ("stopped", "uninitialized"):
                    await old.stop()
                if it.status != old_status:
                    box["why"] = f"restored interpreter has status {it.status}, snapshot was taken in {old_status}"
                    return
                before = it.status
            elif op == "ADV":
                await asyncio.sleep(0.015)
                await settle(it)
            if it.status not in ALLOWED[before]:
                box["why"] = f"{op}: status moved {before} -> {it.status}"
                return
            if it.status == "stopped" and op == "STOP":
                await asyncio.sleep(0)
                live = _live_tasks(lp)
                if live:
                    box["why"] = f"after stop(): tasks still alive: {live}"
                    return
                left = [o for o, ts in it.task_manager._tasks_by_owner.items() if any(not t.done() for t in ts)]
                if left:
                    box["why"] = f"after stop(): live tasks still registered for {left}"
                    return
                alive = [a.id for a in everyone + _descendants(it) if a.status == "running"]
                if alive:
                    box["why"] = f"after stop(): descendant actors still running: {alive}"
                    return
                if it._actors:
                    box["why"] = f"after stop(): children map not empty: {list(it._actors)}"
                    return
                n0 = len(CTL["log"])
                await asyncio.sleep(0.1)
                if len(CTL["log"]) != n0:
                    box["why"] = f"activity after stop(): {CTL['log'][n0:]}"
                    return
                if it.status != "stopped":
                    box["why"] = f"status changed to {it.status} after stop() had returned"
                    return
        await it.stop()
        await asyncio.sleep(0.05)
        live = _live_tasks(lp)
        if live:
            box["why"] = f"after the final stop(): tasks still alive: {live}"

    vloop.run(go(), lp)
    lp.close()
    return box["why"]


OBLIGATIONS = {"lifecycle_seq": lifecycle_seq}
PROBES = {"lifecycle_seq": [{"o1": 1, "o2": 6}, {"o1": 2, "o2": 4, "o3": 6}, {"o1": 5, "o2": 6, "o3": 0}, {"o1": 3, "o2": 6, "o3": 8}]}


def items(tier: str, seed: int) -> List[Dict[str, Any]]:
    quick = tier == "quick"
    out: List[Dict[str, Any]] = []
    for eng in (0, 1):
        e = "sync" if eng == 0 else "async"
        # sequences that do not begin with START (send/stop/restore before start ...): 2 more symbolic operations
        for first in OPS[1:]:
            out.append({"ob": "lifecycle_seq", "params": {"eng": eng, "prefix": [first], "N": 3}, "timeout": 280 if quick else 900,
                        "label": f"lifecycle_seq[{e},{first}+2]"})
        # START first: sharded by the second operation, 2 (quick) / 3 (thorough) more symbolic operations
        for second in OPS:
            out.append({"ob": "lifecycle_seq", "params": {"eng": eng, "prefix": ["START", second], "N": 4 if quick else 5},
                        "timeout": 300 if quick else 2400, "label": f"lifecycle_seq[{e},START,{second}+{2 if quick else 3}]"})
    return out
