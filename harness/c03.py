"""C03 - exit, then transition, then entry actions; exactly-once accounting;
frame condition; actions receive the triggering event.

  step_order   ONE transition (symbolic source / target node / reenter) from an
               arbitrary publicly reachable (configuration, history) pair, on
               both engines. Every state carries marker entry/exit actions, the
               transition a marker action; _cancel_state_tasks and
               _schedule_state_tasks are observed by call-through wrappers.
  internal     targetless / internal self transitions run their actions only
"""
from __future__ import annotations

from typing import Any, Dict, List, Optional

from vf import model, skeletons
from vf.kf import gate, verdict
from harness import common
from harness import c01 as base
from harness.common import pick

PROPERTY = "C03"
P: Dict[str, Any] = {}
EXPLAIN: List[str] = []
EXPLANATION = (
    "C03 (ordering/accounting/frame): CrossHair executes the real _execute_transition[_sync] / _exit_states / "
    "_enter_states / _execute_actions code of both engines from a constructed pre-state with symbolic configuration, "
    "history, source, target and reenter; the oracle reads the recorder log of marker actions (with the event object "
    "each received) and the observed _cancel_state_tasks/_schedule_state_tasks calls."
)
NONTRIVIAL_RULE = "executed an external transition that exited or entered at least one state"
BOUNDS = {
    "step_order": "skeleton fixed per item; every legal configuration x publicly reachable history, every active source, every node as target, reenter in {T,F}, both engines",
    "internal": "skeleton fixed per item; every legal configuration, every active source; targetless and internal self-transition",
    "abort_frame": "skeletons with parallel states; as step_order, but the transition's action list ends with an action nobody implements, so it aborts after its exit phase and is rolled back: configuration unchanged, and no _cancel_state_tasks / _schedule_state_tasks call for any state the transition did not exit (the frame condition under rollback)",
}
ASSUMPTIONS = list(base.ASSUMPTIONS) + [
    "timer/service effects are observed at the engine's own _cancel_state_tasks / _schedule_state_tasks entry points (call-through wrappers on the interpreter instance); the skeleton states declare no timers or services themselves",
]
WALL_BUDGET = {"quick": 900.0, "thorough": 3300.0}
LAST = base.LAST


def set_params(p: Dict[str, Any]) -> None:
    global P
    P = p
    base.set_params(p)


def _note(m: str) -> None:
    EXPLAIN.append(m)


def _lca(a: Any, b: Any) -> Any:
    cur = a
    while cur is not None:
        if model.is_desc(b, cur):
            return cur
        cur = cur.parent
    return None


def _wrap_tasks(interp: Any, eng: int, calls: List[Any]) -> None:
    oc = interp._cancel_state_tasks
    os_ = interp._schedule_state_tasks
    if eng == 0:
        def cancel(state: Any) -> Any:
            calls.append(("cancel", state.id))
            return oc(state)
    else:
        async def cancel(state: Any) -> Any:  # type: ignore[misc]
            calls.append(("cancel", state.id))
            return await oc(state)

    def sched(state: Any) -> Any:
        calls.append(("sched", state.id))
        return os_(state)

    interp._cancel_state_tasks = cancel
    interp._schedule_state_tasks = sched


def _check_log(sk: Any, pre_active: List[Any], post_active: List[Any], src: Any, target: Any, log: List[Any],
               calls: List[Any], ev: Any, external: bool) -> Optional[str]:
    by_id = {n.id: n for n in sk.nodes}
    kinds = [r[0] for r in log]
    # (3) event identity
    for r in log:
        if r[2] is not ev:
            return f"{r[0]} action of {r[1]} received {r[2]!r}, not the triggering event object"
    # (1) phases
    last_ex = max([i for i, k in enumerate(kinds) if k == "ex"], default=-1)
    first_tr = min([i for i, k in enumerate(kinds) if k == "tr"], default=None)
    last_tr = max([i for i, k in enumerate(kinds) if k == "tr"], default=-1)
    first_en = min([i for i, k in enumerate(kinds) if k == "en"], default=None)
    if first_tr is None:
        return "transition action did not run"
    if kinds.count("tr") != 1:
        return f"transition action ran {kinds.count('tr')} times"
    if last_ex > first_tr:
        return "an exit action ran after the transition actions"
    if first_en is not None and first_en < last_tr:
        return "an entry action ran before the transition actions"
    if not external and (last_ex >= 0 or first_en is not None):
        return "internal/targetless transition ran entry or exit actions"
    # (4) accounting, never entered while active, sequentially
    cur = {n.id for n in pre_active}
    exited: List[str] = []
    entered: List[str] = []
    for k, sid, _e in log:
        if k == "ex":
            if sid not in cur:
                return f"exit action of {sid} ran while it was not active"
            cur.discard(sid)
            exited.append(sid)
        elif k == "en":
            if sid in cur:
                return f"{sid} entered while already active"
            cur.add(sid)
            entered.append(sid)
    post = {n.id for n in post_active}
    if cur != post:
        return f"entry/exit actions do not account for the change of configuration: log gives {sorted(cur)}, configuration is {sorted(post)}"
    # (2) nesting order
    for i, a in enumerate(exited):
        for b in exited[i + 1:]:
            if model.is_desc(by_id[b], by_id[a]) and a != b:
                return f"exit of ancestor {a} before its descendant {b}"
    for i, a in enumerate(entered):
        for b in entered[i + 1:]:
            if model.is_desc(by_id[a], by_id[b]) and a != b:
                return f"entry of descendant {a} before its ancestor {b}"
    # (5) frame condition
    lca = _lca(src, target)
    touched = set(exited) | set(entered) | {sid for _k, sid in calls}
    for sid in touched:
        n = by_id[sid]
        inside = lca is not None and model.is_desc(n, lca)
        if inside and n is lca and not (lca is src or lca is target):
            inside = False
        if not inside:
            return f"state {sid} outside the subtree of LCA({src.id},{target.id})={lca.id if lca else None} was touched (entry/exit/timer/service)"
    # (6) timers/services: cancelled exactly for exited states, armed exactly for entered ones
    canc = sorted(sid for k, sid in calls if k == "cancel")
    sch = sorted(sid for k, sid in calls if k == "sched")
    if canc != sorted(exited):
        return f"_cancel_state_tasks called for {canc}, exited states are {sorted(exited)}"
    if sch != sorted(entered):
        return f"_schedule_state_tasks called for {sch}, entered states are {sorted(entered)}"
    return None


def kf_sync_descent_event(**a: Any) -> bool:
    return a["eng"] == 0


def step_order(eng: int, c0: int, c1: int, c2: int, c3: int, c4: int, c5: int, hsel: int,
               srcsel: int, tgt: int, reenter: bool) -> bool:
    """
    pre: 0 <= eng <= 1
    pre: gate('step_order', eng=eng, c0=c0, c1=c1, c2=c2, c3=c3, c4=c4, c5=c5, hsel=hsel, srcsel=srcsel, tgt=tgt, reenter=reenter)
    post: _
    """
    from xstate_statemachine.events import Event
    from xstate_statemachine.models import ActionDefinition, TransitionDefinition

    sk = base._sk()
    target = base._node_for(tgt)
    pre = base._prestate(sk, eng, [c0, c1, c2, c3, c4, c5], hsel)
    if pre is None:
        return verdict(True, nontrivial=False)
    interp, active, watch = pre
    src = active[pick(srcsel, len(active))]
    tr = TransitionDefinition("E", {"target": "#" + target.id, "reenter": True if reenter else False}, source=src,
                              actions=[ActionDefinition({"type": "tr", "params": {"s": "T"}})])
    LAST.update({"src": src.id, "target": "#" + target.id, "reenter": bool(reenter)})
    calls: List[Any] = []
    _wrap_tasks(interp, eng, calls)
    ev = Event("E", {"k": 7})
    err = base._run_transition(interp, eng, tr, ev)
    if err is not None:
        return verdict(True, nontrivial=False)
    log = list(interp.__dict__["_rec"])
    external = not (target is src and not reenter)
    why = _check_log(sk, active, list(interp._active_state_nodes), src, target, log, calls, ev, external)
    if why is not None:
        _note(f"{'sync' if eng == 0 else 'async'} {src.id} -> #{target.id} reenter={bool(reenter)} from {sorted(n.id for n in active)}: {why}; log={[(k, s) for k, s, _ in log]}")
    return verdict(why is None, nontrivial=any(k != "tr" for k, _s, _e in log))


def abort_frame(eng: int, c0: int, c1: int, c2: int, c3: int, c4: int, c5: int, hsel: int, srcsel: int, tgt: int, reenter: bool) -> bool:
    """
    pre: 0 <= eng <= 1
    pre: gate('abort_frame', eng=eng, c0=c0, c1=c1, c2=c2, c3=c3, c4=c4, c5=c5, hsel=hsel, srcsel=srcsel, tgt=tgt, reenter=reenter)
    post: _
    """
    from xstate_statemachine.events import Event
    from xstate_statemachine.models import ActionDefinition, TransitionDefinition

    sk = base._sk()
    target = base._node_for(tgt)
    pre = base._prestate(sk, eng, [c0, c1, c2, c3, c4, c5], hsel)
    if pre is None:
        return verdict(True, nontrivial=False)
    interp, active, watch = pre
    src = active[pick(srcsel, len(active))]
    # the transition's own action list names an action nobody implements: it aborts after the exit phase and is rolled back
    tr = TransitionDefinition("E", {"target": "#" + target.id, "reenter": True if reenter else False}, source=src,
                              actions=[ActionDefinition({"type": "tr", "params": {"s": "T"}}), ActionDefinition("c03_not_implemented")])
    LAST.update({"src": src.id, "target": "#" + target.id, "reenter": bool(reenter)})
    calls: List[Any] = []
    _wrap_tasks(interp, eng, calls)
    before = sorted(n.id for n in active)
    err = base._run_transition(interp, eng, tr, Event("E", {"k": 7}))
    if err is None:
        return verdict(True, nontrivial=False)      # (an internal self-transition without exits may run its list differently: not this obligation)
    log = list(interp.__dict__["_rec"])
    exited = {s_ for k, s_, _e in log if k == "ex"}
    after = sorted(n.id for n in interp._active_state_nodes)
    why = None
    if after != before:
        why = f"configuration after the rolled-back transition: {after}, before: {before}"
    else:
        outside = [(k, sid) for k, sid in calls if sid not in exited]
        if outside:
            why = (f"the rolled-back transition touched timers/services of states it never exited: {outside} "
                   f"(exited: {sorted(exited)}) - states outside the transition's domain must see no cancellation and no restart")
    if why is not None:
        _note(f"{'sync' if eng == 0 else 'async'} {src.id} -> #{target.id} reenter={bool(reenter)} from {before} aborted with {err}: {why}")
    return verdict(why is None, nontrivial=bool(exited))


def internal(eng: int, c0: int, c1: int, c2: int, c3: int, c4: int, c5: int, srcsel: int, targetless: bool) -> bool:
    """
    pre: 0 <= eng <= 1
    pre: gate('internal', eng=eng)
    post: _
    """
    from xstate_statemachine.events import Event
    from xstate_statemachine.models import ActionDefinition, TransitionDefinition

    sk = base._sk()
    pre = base._prestate(sk, eng, [c0, c1, c2, c3, c4, c5], 0)
    if pre is None:
        return verdict(True, nontrivial=False)
    interp, active, watch = pre
    src = active[pick(srcsel, len(active))]
    cfg: Dict[str, Any] = {} if targetless else {"target": "#" + src.id}
    tr = TransitionDefinition("E", cfg, source=src, actions=[ActionDefinition({"type": "tr", "params": {"s": "T"}})])
    calls: List[Any] = []
    _wrap_tasks(interp, eng, calls)
    ev = Event("E", {"k": 7})
    err = base._run_transition(interp, eng, tr, ev)
    if err is not None:
        return verdict(True, nontrivial=False)
    log = list(interp.__dict__["_rec"])
    why = _check_log(sk, active, list(interp._active_state_nodes), src, src, log, calls, ev, False)
    if why is None and calls:
        why = f"internal transition touched timers/services: {calls}"
    if why is not None:
        _note(f"internal on {src.id}: {why}")
    return verdict(why is None)


OBLIGATIONS = {"step_order": step_order, "internal": internal, "abort_frame": abort_frame}


def items(tier: str, seed: int) -> List[Dict[str, Any]]:
    out: List[Dict[str, Any]] = []
    quick = tier == "quick"
    fam = skeletons.gen(4, 3, limit=16 if quick else 300, seed=seed + 1)
    cur = [(k, v) for k, v in skeletons.CURATED.items() if not (quick and k == "CUR17")]   # CUR17 (20 nodes): thorough tier only here; C11 runs it in both tiers
    for sid, spec in cur:
        n = base._count_nodes(spec)
        for t in range(n):
            out.append({"ob": "step_order", "params": {"sid": sid, "spec": spec, "tgts": [t, t + 1]},
                        "timeout": 200 if quick else 500, "label": f"step_order[{sid},tgt={t}]"})
        out.append({"ob": "internal", "params": {"sid": sid, "spec": spec}, "timeout": 120, "label": f"internal[{sid}]"})
        if sid in (("CUR3", "CUR4", "CUR7", "CUR11") if quick else ("CUR3", "CUR4", "CUR6", "CUR7", "CUR10", "CUR11", "CUR13", "CUR14", "CUR16")):
            for t in range(n):
                out.append({"ob": "abort_frame", "params": {"sid": sid, "spec": spec, "tgts": [t, t + 1]}, "timeout": 300 if quick else 900,
                            "label": f"abort_frame[{sid},tgt={t}]"})
    for sid, spec in fam:
        out.append({"ob": "step_order", "params": {"sid": sid, "spec": spec}, "timeout": 150 if quick else 300,
                    "label": f"step_order[{sid}]"})
    return out
