"""C12 - snapshots are faithful, isolated resume points.

  resume_step    bisimulation step: from an arbitrary constructed quiescent
                 state of the feature machine (configuration x recorded history
                 x context value), snapshot -> from_snapshot -> (async: start())
                 yields an interpreter with the same configuration, context,
                 history, status, output and error flag; the snapshot string is
                 valid JSON; re-snapshotting the restored interpreter
                 reproduces it; sending one more event to both the original
                 and the restored interpreter gives equal observations and does
                 not alter the snapshot taken before. Repeated k times
                 (save/restore cycles).
  resume_run     the same through a public run: start() + symbolic events, cut
                 after every event.
  actors_resume  parent with a live child actor registered under a systemId
                 (and, optionally, already completed): restored hierarchy has
                 the same actor ids / systemIds / child configuration and the
                 child still processes events addressed by systemId.
  corrupt        from_snapshot on a structurally corrupted snapshot (one key
                 removed or replaced by a value of the wrong JSON type, unknown
                 state ids, symbolic short strings) returns a usable
                 interpreter or raises an XStateMachineError subclass - never a
                 raw KeyError / TypeError / AttributeError; unknown state ids
                 raise StateNotFoundError; non-JSON text raises InvalidConfigError.
"""
from __future__ import annotations

import copy
import json
from typing import Any, Dict, List, Optional

from vf import env, model
from vf.kf import gate, verdict
from vf.logic import make_logic
from harness import common
from harness import c05 as fm
from harness.common import Chooser, build_config, pick

PROPERTY = "C12"
P: Dict[str, Any] = {}
EXPLAIN: List[str] = []
EXPLANATION = (
    "C12 (snapshots): CrossHair executes get_snapshot/get_persisted_snapshot/from_snapshot (+ async start() resume) "
    "and send() of both engines on the feature machine and on a parent/child actor machine from constructed or "
    "publicly reached states; configuration, history, context, cut point, continuation event, number of "
    "save/restore cycles and the position/kind of a snapshot corruption are symbolic."
)
NONTRIVIAL_RULE = "restored an interpreter from a snapshot and compared it (and one continuation step) with the original"
BOUNDS = {
    "resume_step": "feature machine FM; every non-final legal configuration x history of B in {absent,b1,b2} x n in {0,1}; 1-2 save/restore cycles; continuation event and engine fixed per item (all 13 events x sync, 6 x async in quick); guard outcomes symbolic",
    "resume_run": "feature machine FM; public run of N events (first fixed per item), cut after each",
    "terminal_resume": "machine TR cut in a terminal status: done (truthy / falsy output), done then stop(), error (failing service), error then stop(), stopped mid-run; both engines: status, output, error, configuration, context and the re-snapshot are reproduced",
    "context_exact": "context machine CX (actions that delete a declared key, add keys, store None / falsy values, mutate nested data, clear the context); sequences of 3 events over 7; one snapshot/restore cut at a symbolic position; both engines: restored context equals the uninterrupted run's context exactly (no key of the initial context comes back), re-snapshot reproduces the snapshot, later behaviour equal; a snapshot DICT kept by the user is not changed by the later execution of the interpreter it came from",
    "actors_resume": "parent/child machine; child spawned (blocking in the sync engine) under id and systemId; cut before / after the child moved / after the parent completed; both engines",
    "snapshot_skeleton": "history skeletons CUR4/5/9/12/13/14: every legal configuration x publicly reachable history; both engines",
    "corrupt": "snapshot of a machine with history and an actor; corruption = (key index, replacement kind, string choice) symbolic over 9 keys x 13 replacements x 4 strings (empty, unknown id, two valid ids)",
}
ASSUMPTIONS = [
    "context stays JSON-representable (it crosses json.dumps)",
    "pending timers and in-flight services are excepted, as documented; the feature machine's service is synchronous",
]
WALL_BUDGET = {"quick": 900.0, "thorough": 3300.0}


def set_params(p: Dict[str, Any]) -> None:
    global P
    P = p
    fm.set_params({"first": p.get("first", "GO"), "N": p.get("N", 2)})
    _am()
    if p.get("sid"):
        from harness import c01

        c01.set_params(p)


def _note(m: str) -> None:
    EXPLAIN.append(m)


def _state_of(it: Any) -> Dict[str, Any]:
    return {
        "cfg": sorted(n.id for n in it._active_state_nodes),
        "ctx": fm._cp(it.context),
        "hist": {k: sorted(n.id for n in v) for k, v in it._history.items()},
        "status": it.status,
        "output": fm._cp(it.output),
        "error": str(it.error) if it.error is not None else None,
        "actors": sorted(it._actors.keys()),
        "system": {k: v.id for k, v in it._system.items()},
    }


def _same(a: Dict[str, Any], b: Dict[str, Any]) -> Optional[str]:
    for k in a:
        if a[k] != b[k]:
            return f"{k}: {a[k]!r} vs {b[k]!r}"
    return None


def _norm_snapshot(s: str) -> Any:
    return json.loads(s)


def resume_step(eng: int, c0: int, c1: int, c2: int, c3: int, hsel: int, n0: int, evsel: int, cycles: bool,
                b1: bool, b2: bool, b3: bool, b4: bool, b5: bool) -> bool:
    """
    pre: 0 <= eng <= 1
    pre: 0 <= n0 <= 3
    pre: gate('resume_step', eng=eng, evsel=evsel)
    post: _
    """
    from xstate_statemachine import Interpreter, SyncInterpreter

    m = fm._machine("FM")
    active = build_config(m, Chooser([c0, c1, c2, c3]))
    if any(a.key in ("bf",) for a in active):
        return verdict(True, nontrivial=False)
    by = {n.id: n for n in model.doc_order(m)}
    if eng != P.get("eng", eng):
        return verdict(True, nontrivial=False)  # the other engine is a separate work item
    hv = pick(hsel, 3)
    n0 = pick(n0, 2)  # concrete from here on: the snapshot crosses json (run natively, see common.native)
    ev = P["ev"] if "ev" in P else fm.ALPHA[pick(evsel, len(fm.ALPHA))]
    done = any(a.key == "F" for a in active)
    cls = SyncInterpreter if eng == 0 else Interpreter
    fm.GV["fn"] = fm._guards([b1, b2, b3, b4, b5])

    def mk() -> Any:
        it = cls(m)
        it.status = "done" if done else "running"
        it._active_state_nodes = set(active)
        it.context["n"] = n0
        if done:
            it.output = {"n": n0}
        if hv:
            it._history["m.B"] = [by["m.B.b1"] if hv == 1 else by["m.B.b2"]]
        return it

    orig = mk()
    snap = common.native(orig.get_snapshot)
    try:
        parsed = common.native(json.loads, snap)
    except Exception as e:
        _note(f"snapshot is not valid JSON: {e}")
        return verdict(False)
    restored = common.native(cls.from_snapshot, snap, m)
    if cycles:
        restored = common.native(cls.from_snapshot, common.native(restored.get_snapshot), m)
    d = _same(_state_of(orig), _state_of(restored))
    if d:
        _note(f"restored interpreter differs from the original ({sorted(a.id for a in active)}, hist={hv}, n={n0}): {d}")
        return verdict(False)
    if common.native(_norm_snapshot, common.native(restored.get_snapshot)) != parsed:
        _note("re-snapshot of the restored interpreter differs from the snapshot it was built from")
        return verdict(False)
    # one continuation step on both
    obs = []
    for it in (orig, restored):
        rec: List[Any] = []
        it.__dict__["_rec"] = rec
        acts = fm._Acts()
        it.use(acts)
        fm.GV["fn"] = fm._guards([b1, b2, b3, b4, b5])
        if eng == 0:
            if it is restored:
                it.start()  # documented no-op / resume for a restored interpreter
            it.send(ev)
        else:
            async def go(it: Any = it) -> None:
                import asyncio

                if it is restored:
                    await it.start()
                elif it.status == "running":
                    it._event_loop_task = asyncio.ensure_future(it._run_event_loop())
                await it.send(ev)
                await fm._settle(it)
                await it.stop()

            common.drive(go())
        o = _state_of(it)
        if eng == 1:
            o["status"] = "x"  # both were stopped by the harness
        o["markers"] = [(k, s, getattr(e, "type", None)) for k, s, e in rec]
        obs.append(o)
    d = _same(obs[0], obs[1])
    if d:
        _note(f"continuation {ev} from ({sorted(a.id for a in active)}, hist={hv}, n={n0}): original vs restored: {d}")
        return verdict(False)
    if common.native(json.loads, snap) != parsed or common.native(orig.get_persisted_snapshot) is None:
        _note("later execution changed an already taken snapshot")
        return verdict(False)
    return verdict(True)


def resume_run(eng: int, e1: int, e2: int, b1: bool, b2: bool, b3: bool, b4: bool, b5: bool) -> bool:
    """
    pre: 0 <= eng <= 1
    pre: gate('resume_run', eng=eng)
    post: _
    """
    from xstate_statemachine import Interpreter, SyncInterpreter

    m = fm._machine("FM")
    n = P["N"]
    evs = [P["first"]] + [fm.ALPHA[pick(s, len(fm.ALPHA))] for s in [e1, e2][: n - 1]]
    cls = SyncInterpreter if eng == 0 else Interpreter
    ok = True
    if eng == 0:
        fm.GV["fn"] = fm._guards([b1, b2, b3, b4, b5])
        it = SyncInterpreter(m).start()
        for i, e in enumerate(evs):
            it.send(e)
            snap = it.get_snapshot()
            r = cls.from_snapshot(snap, m)
            d = _same(_state_of(it), _state_of(r))
            if d:
                _note(f"sync cut after {evs[:i + 1]}: {d}")
                ok = False
                break
            # the restored interpreter continues like the original
            rest = evs[i + 1:] + ["HIST", "NEXT"]
            fm.GV["fn"] = fm._guards([b1, b2, b3, b4, b5])
            r.start()
            o2 = SyncInterpreter.from_snapshot(snap, m)  # twin of the original at the cut
            for e2_ in rest:
                r.send(e2_)
                o2.send(e2_)
            if _state_of(r)["cfg"] != _state_of(o2)["cfg"]:
                ok = False
                break
        it.stop()
        return verdict(ok)
    box: Dict[str, Any] = {"ok": True}

    async def go() -> None:
        fm.GV["fn"] = fm._guards([b1, b2, b3, b4, b5])
        it = Interpreter(m)
        await it.start()
        for i, e in enumerate(evs):
            await it.send(e)
            await fm._settle(it)
            snap = it.get_snapshot()
            r = Interpreter.from_snapshot(snap, m)
            d = _same(_state_of(it), _state_of(r))
            if d:
                _note(f"async cut after {evs[:i + 1]}: {d}")
                box["ok"] = False
                break
            await r.start()
            if r.status == "running" and not r.is_running:
                _note("restored async interpreter reports running but has no live loop after start()")
                box["ok"] = False
                break
            await r.send("NOPE")
            await fm._settle(r)
            await r.stop()
        await it.stop()

    common.drive(go())
    return verdict(box["ok"])


# ---------------------------------------------------------------------------
# actors
# ---------------------------------------------------------------------------

_AM: Dict[str, Any] = {}


def _am() -> Any:
    m = _AM.get("m")
    if m is None:
        from xstate_statemachine import create_machine
        from xstate_statemachine import actions as A

        env.install()
        kid = create_machine({
            "id": "kid", "initial": "idle", "context": {"hits": 0},
            "states": {"idle": {"on": {"POKE": {"target": "busy", "actions": [A.assign(lambda a: {"hits": a["context"]["hits"] + 1})]}}},
                       "busy": {"on": {"POKE": "idle"}}},
        }, logic=make_logic())
        env.pin_hashes(kid)
        parent_cfg = {
            "id": "par", "initial": "a",
            "states": {
                "a": {"on": {
                    "SPAWN": {"actions": [{"type": "spawn_blocking_kid", "params": {"id": "k1", "systemId": "sysK"}}]},
                    "ASPAWN": {"actions": [A.spawn_child("kid", actor_id="k1", system_id="sysK")]},
                    "TELL": {"actions": [A.send_to("sysK", "POKE")]},
                    "END": "fin",
                }},
                "fin": {"type": "final"},
            },
        }
        m = create_machine(parent_cfg, logic=make_logic(services={"kid": kid}))
        env.pin_hashes(m)
        _AM["m"] = m
        _AM["kid"] = kid
    return m


def _tree_state(it: Any) -> Any:
    return {
        "cfg": sorted(n.id for n in it._active_state_nodes), "status": it.status, "ctx": fm._cp(it.context),
        "actors": {aid: {"cfg": sorted(n.id for n in a._active_state_nodes), "ctx": fm._cp(a.context), "status": a.status}
                   for aid, a in sorted(it._actors.items())},
        "system": {k: v.id for k, v in sorted(it._system.items())},
    }


def actors_resume(eng: int, tells: int, end: bool) -> bool:
    """
    pre: 0 <= eng <= 1
    pre: gate('actors_resume', eng=eng)
    post: _
    """
    from xstate_statemachine import Interpreter, SyncInterpreter

    m = _am()
    nt = pick(tells, 3)
    if eng == 0:
        it = SyncInterpreter(m).start()
        it.send("SPAWN")
        for _ in range(nt):
            it.send("TELL")
        if end:
            it.send("END")
        snap = it.get_snapshot()
        r = SyncInterpreter.from_snapshot(snap, m)
        a, b = _tree_state(it), _tree_state(r)
        if a != b:
            _note(f"sync: restored hierarchy differs: {a} vs {b}")
            return verdict(False)
        if _norm_snapshot(r.get_snapshot()) != _norm_snapshot(snap):
            _note("sync: re-snapshot of the restored hierarchy differs")
            return verdict(False)
        # the restored child is addressable by systemId and still works
        kid_r = r.system.get("sysK")
        kid_o = it.system.get("sysK")
        if kid_r is None or kid_o is None:
            _note("systemId registration lost")
            return verdict(False)
        if kid_r.status == "running":
            kid_r.send("POKE")
            kid_o.send("POKE")
        if _tree_state(it)["actors"] != _tree_state(r)["actors"]:
            _note(f"sync: child diverged after restore: {_tree_state(it)['actors']} vs {_tree_state(r)['actors']}")
            return verdict(False)
        it.stop()
        r.stop()
        return verdict(True)
    box: Dict[str, Any] = {"ok": True}

    async def go() -> None:
        it = Interpreter(m)
        await it.start()
        await it.send("ASPAWN")
        await fm._settle(it)
        for _ in range(nt):
            await it.send("TELL")
            await fm._settle(it)
            for a in it._actors.values():
                await fm._settle(a)
        if end:
            await it.send("END")
            await fm._settle(it)
        snap = it.get_snapshot()
        r = Interpreter.from_snapshot(snap, m)
        a, b = _tree_state(it), _tree_state(r)
        if a != b:
            _note(f"async: restored hierarchy differs: {a} vs {b}")
            box["ok"] = False
        else:
            await r.start()
            ko, kr = it.system.get("sysK"), r.system.get("sysK")
            if ko is None or kr is None:
                _note("async: systemId registration lost")
                box["ok"] = False
            else:
                await ko.send("POKE")
                await kr.send("POKE")
                await fm._settle(ko)
                import asyncio

                for _ in range(5):
                    await asyncio.sleep(0)
                if not kr._event_queue.empty():
                    _note("async: restored child actor does not process events (no live loop after parent.start())")
                    box["ok"] = False
                elif _tree_state(it)["actors"] != _tree_state(r)["actors"]:
                    _note(f"async: child diverged after restore: {_tree_state(it)['actors']} vs {_tree_state(r)['actors']}")
                    box["ok"] = False
        await it.stop()
        await r.stop()

    common.drive(go())
    return verdict(box["ok"])


# ---------------------------------------------------------------------------
# corrupt snapshots
# ---------------------------------------------------------------------------

KEYS = ["status", "context", "state_ids", "configuration", "output", "error", "history", "actors", "system"]


def _good_snapshot() -> Dict[str, Any]:
    g = _AM.get("good")
    if g is None:
        from xstate_statemachine import SyncInterpreter

        m = fm._machine("FM")
        it = SyncInterpreter(m).start()
        fm.GV["fn"] = fm._guards([True, False, False, True, True])
        for e in ("GO", "NEXT", "LEAVE"):
            it.send(e)
        g = json.loads(it.get_snapshot())
        g["actors"] = {"m:zz": {"machine_id": "kid", "src": "nosuch", "snapshot": {"status": "running", "context": {}, "state_ids": []}}}
        g["system"] = {"sysZ": "m:zz"}
        _AM["good"] = g
    return g


def corrupt(key: int, kind: int, ssel: int) -> bool:
    """
    pre: gate('corrupt', key=key, kind=kind)
    post: _
    """
    from xstate_statemachine import SyncInterpreter
    from xstate_statemachine.exceptions import InvalidConfigError, StateNotFoundError, XStateMachineError
    import xstate_statemachine.base_interpreter as bi

    s = ["", "zz", "m.A", "m.B.b2"][pick(ssel, 4)]
    good = _good_snapshot()
    snap = {k: fm._cp(v) for k, v in good.items()}
    k = KEYS[pick(key, len(KEYS))]
    kd = pick(kind, 13)
    unknown_state = False
    if kd == 0:
        snap.pop(k, None)
        if k == "configuration":
            pass
    elif kd == 1:
        snap[k] = None
    elif kd == 2:
        snap[k] = True
    elif kd == 3:
        snap[k] = 5
    elif kd == 4:
        snap[k] = s
    elif kd == 5:
        snap[k] = []
    elif kd == 6:
        snap[k] = [5]
    elif kd == 7:
        snap[k] = [s]
        # ('state_ids' is only consulted when 'configuration' is absent or empty)
        unknown_state = k == "configuration"
    elif kd == 8:
        snap[k] = {}
    elif kd == 9:
        snap[k] = {s: 5}
    elif kd == 10:
        snap[k] = {"m.B": [s]}
    elif kd == 11:
        snap[k] = {"x": {"src": 5, "snapshot": 7}}
    else:
        snap[k] = {"x": {"src": "svc", "snapshot": {}}}

    class _J:
        JSONDecodeError = json.JSONDecodeError

        @staticmethod
        def loads(_text: Any) -> Any:
            return snap

        dumps = staticmethod(json.dumps)

    old = bi.json
    bi.json = _J  # the decoded value is the symbolic corruption
    try:
        try:
            r = SyncInterpreter.from_snapshot("<symbolic>", fm._machine("FM"))
            outcome = "ok"
        except XStateMachineError as e:
            outcome = type(e).__name__
            r = None
        except (KeyError, TypeError, AttributeError, ValueError, IndexError) as e:
            _note(f"snapshot with {k!r} -> kind {kd} (s={s!r}): raw {type(e).__name__}: {e}")
            return verdict(False)
    finally:
        bi.json = old
    if outcome == "ok":
        if r.status not in ("uninitialized", "running", "done", "error", "stopped"):
            _note(f"restored interpreter has status {r.status!r}")
            return verdict(False)
        if not isinstance(r.context, dict):
            _note(f"restored interpreter has a non-dict context {type(r.context).__name__}")
            return verdict(False)
        known = {n.id for n in model.doc_order(fm._machine("FM"))}
        if unknown_state and s not in known:
            _note(f"snapshot naming unknown state {s!r} was accepted")
            return verdict(False)
    elif unknown_state and outcome != "StateNotFoundError":
        # a list with one string that is not a state id of the machine
        known = {n.id for n in model.doc_order(fm._machine("FM"))}
        if s not in known:
            _note(f"unknown state id {s!r} rejected with {outcome}, expected StateNotFoundError")
            return verdict(False)
    return verdict(True)


def corrupt_text(which: int) -> bool:
    """
    pre: gate('corrupt_text', which=which)
    post: _
    """
    from xstate_statemachine import Interpreter, SyncInterpreter
    from xstate_statemachine.exceptions import InvalidConfigError, XStateMachineError

    texts = ["", "{", "not json", "[1,2]", "5", "null", "\"str\"", "{}"]
    t = texts[pick(which, len(texts))]
    for cls in (SyncInterpreter, Interpreter):
        try:
            cls.from_snapshot(t, fm._machine("FM"))
            _note(f"{cls.__name__}.from_snapshot({t!r}) was accepted")
            return verdict(False)
        except XStateMachineError:
            pass
        except Exception as e:
            _note(f"{cls.__name__}.from_snapshot({t!r}) raised raw {type(e).__name__}: {e}")
            return verdict(False)
    return verdict(True)


def snapshot_skeleton(eng: int, c0: int, c1: int, c2: int, c3: int, c4: int, c5: int, hsel: int) -> bool:
    """
    pre: 0 <= eng <= 1
    pre: gate('snapshot_skeleton', eng=eng)
    post: _
    """
    # same obligation as C01.snapshot_legal (restored configuration AND recorded history equal the
    # snapshotted ones, for every publicly reachable (configuration, history) pair of a skeleton)
    from harness import c01

    ok = c01.snapshot_body(eng, c0, c1, c2, c3, c4, c5, hsel)
    EXPLAIN.extend(c01.EXPLAIN[-2:])
    return ok


CX_EVENTS = ["DEL", "ADD", "NONE", "NEST", "CLR", "SWAP", "GO"]


def _cx_machine() -> Any:
    m = fm._M.get("CX") if hasattr(fm, "_M") else None
    if m is None:
        from xstate_statemachine import create_machine
        from vf import env as _env
        from vf.logic import make_logic

        def a_del(i: Any, c: Any, e: Any, a: Any) -> None:
            c.pop("draft", None)

        def a_add(i: Any, c: Any, e: Any, a: Any) -> None:
            c["extra"] = {"k": [len(c)]}

        def a_none(i: Any, c: Any, e: Any, a: Any) -> None:
            c["a"] = None

        def a_nest(i: Any, c: Any, e: Any, a: Any) -> None:
            c.setdefault("deep", {"l": []})["l"].append(len(c))

        def a_clr(i: Any, c: Any, e: Any, a: Any) -> None:
            c.clear()

        def a_swap(i: Any, c: Any, e: Any, a: Any) -> None:
            c["n"] = False if c.get("n") == 0 else 0

        cfg = {"id": "cx", "initial": "s", "context": {"a": 1, "draft": [1, 2], "n": 0, "z": ""},
               "states": {"s": {"on": {"DEL": {"actions": ["del"]}, "ADD": {"actions": ["add"]}, "NONE": {"actions": ["none"]},
                                       "NEST": {"actions": ["nest"]}, "CLR": {"actions": ["clr"]}, "SWAP": {"actions": ["swap"]},
                                       "GO": [{"target": "t", "guard": "hasDraft"}, {"target": "u"}]}},
                          "t": {"on": {"GO": "s"}}, "u": {"on": {"GO": "s"}}}}
        _env.install()
        m = create_machine(cfg, logic=make_logic(actions={"del": a_del, "add": a_add, "none": a_none, "nest": a_nest, "clr": a_clr, "swap": a_swap},
                                                 guards={"hasDraft": lambda c, e: "draft" in c}))
        _env.pin_hashes(m)
        if hasattr(fm, "_M"):
            fm._M["CX"] = m
    return m


def context_exact(eng: int, e0: int, e1: int, e2: int, cut: int) -> bool:
    """
    pre: 0 <= eng <= 1
    pre: gate('context_exact', eng=eng, e0=e0, e1=e1, e2=e2, cut=cut)
    post: _
    """
    from xstate_statemachine import Interpreter, SyncInterpreter

    if "eng" in P and eng != P["eng"]:
        return verdict(True, nontrivial=False)
    m = _cx_machine()
    evs = [CX_EVENTS[P["first"]] if "first" in P else CX_EVENTS[pick(e0, len(CX_EVENTS))]]
    evs += [CX_EVENTS[pick(x, len(CX_EVENTS))] for x in (e1, e2)]
    k = pick(cut, 4)          # snapshot + restore after k events, then continue with the rest
    why: Optional[str] = None

    def fp(it: Any) -> Any:
        return (sorted(n.id for n in it._active_state_nodes), repr(sorted(it.context.items(), key=repr)), it.status)

    if eng == 0:
        ref = SyncInterpreter(m)
        ref.start()
        it = SyncInterpreter(m)
        it.start()
        for i, e in enumerate(evs):
            if i == k:
                snap = common.native(it.get_snapshot)
                held = common.native(ref.get_persisted_snapshot)          # a snapshot DICT the user keeps while ref goes on
                held_copy = common.native(copy.deepcopy, held)
                it = common.native(SyncInterpreter.from_snapshot, snap, m)
                if fp(it) != fp(ref):
                    why = f"restored after {evs[:i]}: {fp(it)} vs uninterrupted {fp(ref)}"
                    break
                if common.native(it.get_snapshot) != snap:
                    why = f"re-snapshot after restore differs after {evs[:i]}"
                    break
            ref.send(e)
            it.send(e)
            if fp(it) != fp(ref):
                why = f"after {evs[:i + 1]} (cut at {k}): {fp(it)} vs uninterrupted {fp(ref)}"
                break
        if why is None and k < len(evs) and held != held_copy:
            why = f"a snapshot dict taken after {evs[:k]} changed while the interpreter it came from went on: context {held.get('context')!r} was {held_copy.get('context')!r}"
        ref.stop()
        it.stop()
    else:
        box: Dict[str, Any] = {}

        async def go() -> None:
            ref = Interpreter(m)
            await ref.start()
            it = Interpreter(m)
            await it.start()
            for i, e in enumerate(evs):
                if i == k:
                    snap = common.native(it.get_snapshot)
                    await it.stop()
                    it = common.native(Interpreter.from_snapshot, snap, m)
                    await it.start()
                    if fp(it) != fp(ref):
                        box["why"] = f"restored after {evs[:i]}: {fp(it)} vs uninterrupted {fp(ref)}"
                        break
                await ref.send(e)
                await ref._event_queue.join()
                await it.send(e)
                await it._event_queue.join()
                if fp(it) != fp(ref):
                    box["why"] = f"after {evs[:i + 1]} (cut at {k}): {fp(it)} vs uninterrupted {fp(ref)}"
                    break
            await ref.stop()
            await it.stop()

        common.drive(go())
        why = box.get("why")
    if why:
        _note(f"{'sync' if eng == 0 else 'async'}: {why}")
    return verdict(why is None, nontrivial=k < 3)


def terminal_resume(eng: int, how: int) -> bool:
    """
    pre: 0 <= eng <= 1
    pre: gate('terminal_resume', eng=eng, how=how)
    post: _
    """
    from xstate_statemachine import Interpreter, SyncInterpreter, create_machine
    from vf import env as _env
    from vf.logic import make_logic

    h = pick(how, 6)
    m = fm._M.get("TR") if hasattr(fm, "_M") else None
    if m is None:
        def boom(i: Any, c: Any, e: Any) -> Any:
            raise RuntimeError("service failed")

        cfg = {"id": "tr", "initial": "a", "context": {"n": 1},
               "states": {"a": {"on": {"FIN": "f", "FIN2": "g", "FAIL": "x", "GO": "b"}}, "b": {"on": {"GO": "a"}},
                          "f": {"type": "final", "output": {"receipt": "R-42", "ok": True}},
                          "g": {"type": "final", "output": 0},
                          "x": {"invoke": {"src": "boom", "id": "s"}}}}
        _env.install()
        m = create_machine(cfg, logic=make_logic(services={"boom": boom}))
        _env.pin_hashes(m)
        if hasattr(fm, "_M"):
            fm._M["TR"] = m
    # how: 0 done (truthy output), 1 done then stop(), 2 done with a falsy output then stop(), 3 error, 4 error then stop(), 5 stopped mid-run
    script = {0: (["FIN"], False), 1: (["FIN"], True), 2: (["FIN2"], True), 3: (["FAIL"], False), 4: (["FAIL"], True), 5: (["GO"], True)}[h]
    evs, stop_first = script

    def view(it: Any) -> Any:
        # (an exception object cannot be rebuilt from JSON: the library restores a RestoredError carrying its text - presence is compared)
        return (it.status, repr(it.output), getattr(it, "error", None) is not None,
                sorted(n.id for n in it._active_state_nodes), repr(sorted(it.context.items())))

    why: Optional[str] = None
    if eng == 0:
        it = SyncInterpreter(m)
        it.start()
        for e in evs:
            try:
                it.send(e)
            except Exception:  # noqa: BLE001 - the failing service surfaces through status 'error'
                pass
        if stop_first:
            it.stop()
        snap = common.native(it.get_snapshot)
        r = common.native(SyncInterpreter.from_snapshot, snap, m)
        if view(r) != view(it):
            why = f"restored {view(r)} vs original {view(it)}"
        elif common.native(r.get_snapshot) != snap:
            why = "re-snapshot of the restored interpreter differs from the snapshot it was built from"
        if not stop_first:
            it.stop()
    else:
        box: Dict[str, Any] = {}

        async def go() -> None:
            it2 = Interpreter(m)
            await it2.start()
            for e in evs:
                await it2.send(e)
                await it2._event_queue.join()
            import asyncio

            for _ in range(10):
                await asyncio.sleep(0)
            if stop_first:
                await it2.stop()
            snap = common.native(it2.get_snapshot)
            r = common.native(Interpreter.from_snapshot, snap, m)
            if view(r) != view(it2):
                box["why"] = f"restored {view(r)} vs original {view(it2)}"
            elif common.native(r.get_snapshot) != snap:
                box["why"] = "re-snapshot of the restored interpreter differs from the snapshot it was built from"
            if not stop_first:
                await it2.stop()

        common.drive(go())
        why = box.get("why")
    if why:
        _note(f"{'sync' if eng == 0 else 'async'} how={h} ({evs}{' + stop()' if stop_first else ''}): {why}")
    return verdict(why is None)


OBLIGATIONS = {"snapshot_skeleton": snapshot_skeleton, "resume_step": resume_step, "resume_run": resume_run, "actors_resume": actors_resume,
               "corrupt": corrupt, "corrupt_text": corrupt_text, "context_exact": context_exact,
               "terminal_resume": terminal_resume}
PROBES = {"corrupt": [{"key": 0, "kind": 0}, {"key": 2, "kind": 3}, {"key": 6, "kind": 3}, {"key": 7, "kind": 6}, {"key": 3, "kind": 7, "ssel": 1}],
          "actors_resume": [{"eng": 1, "tells": 1, "end": True}, {"eng": 0, "tells": 1}]}


def items(tier: str, seed: int) -> List[Dict[str, Any]]:
    quick = tier == "quick"
    out: List[Dict[str, Any]] = []
    for eng in (0, 1):
        for ev in fm.ALPHA:
            if quick and eng == 1 and ev not in ("GO", "HIST", "PREV", "SVC", "X", "FIN"):
                continue
            out.append({"ob": "resume_step", "params": {"eng": eng, "ev": ev}, "timeout": 240 if quick else 900,
                        "label": f"resume_step[{'sync' if eng == 0 else 'async'},{ev}]"})
    for first in (["GO", "X", "SVC", "FIN"] if quick else fm.ALPHA[:-1]):
        out.append({"ob": "resume_run", "params": {"first": first, "N": 2 if quick else 3}, "timeout": 280 if quick else 1500,
                    "label": f"resume_run[first={first}]"})
    out.append({"ob": "actors_resume", "params": {}, "timeout": 200, "label": "actors_resume"})
    out.append({"ob": "terminal_resume", "params": {}, "timeout": 200, "label": "terminal_resume"})
    for eng in (0, 1):
        for first in range(len(CX_EVENTS)):
            out.append({"ob": "context_exact", "params": {"eng": eng, "first": first}, "timeout": 300,
                        "label": f"context_exact[{'sync' if eng == 0 else 'async'},{CX_EVENTS[first]}+2]"})
    out.append({"ob": "corrupt", "params": {}, "timeout": 280 if quick else 900, "label": "corrupt"})
    out.append({"ob": "corrupt_text", "params": {}, "timeout": 60, "label": "corrupt_text"})
    from vf import skeletons

    for sid in ["CUR4", "CUR5", "CUR9", "CUR12", "CUR13", "CUR14", "CUR16"]:
        out.append({"ob": "snapshot_skeleton", "params": {"sid": sid, "spec": skeletons.CURATED[sid]}, "timeout": 120,
                    "label": f"snapshot_skeleton[{sid}]"})
    return out
