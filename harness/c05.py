"""C05 - sync, async and pure engines compute the same behaviour.

  engines_seq   the feature machine FM (hierarchy, parallel, history, guards,
                assign / raise / choose / pure / enqueueActions, always,
                onDone with done data, a sync invoked service, final output)
                is run from start() on SyncInterpreter, on Interpreter (VLoop,
                observed each time the queue is drained) and through
                initial_transition/transition, on the same symbolic event
                sequence and guard valuation. After every event: equal
                configuration, context, status, output; equal ordered list of
                executed (pure: reported) actions with the triggering events.
  pure_is_pure  the pure functions run no user action, start no timer, service
                or actor and leave the machine definition and the snapshot
                passed in unchanged.
"""
from __future__ import annotations

import copy
from typing import Any, Dict, List, Optional, Tuple

from vf import env, model
from vf.kf import gate, verdict
from vf.logic import make_logic
from harness import common
from harness.common import pick

PROPERTY = "C05"
P: Dict[str, Any] = {}
EXPLAIN: List[str] = []
EXPLANATION = (
    "C05 (engine agreement): CrossHair executes start()/send() of SyncInterpreter and Interpreter (virtual-time loop) and "
    "helpers.initial_transition/transition on one feature machine with a symbolic event sequence and symbolic guard "
    "outcomes, and compares configuration, context, status, output and action traces after every event."
)
NONTRIVIAL_RULE = "processed at least one event that ran an action or changed the configuration"
BOUNDS = {
    "cut_agree": "C13's chain machine, chain kind fixed per item (mutually enabling always, done.state re-completion, parallel always, action raising its own trigger and three mixed raise chains); maxIterations in [1,5], natural chain length L in [0,7] or unbounded, triggered by an event or by start(): steps run, configuration, context and status after the chain are equal on both engines (done.invoke chains are outside: the asyncio engine passes every link through the event loop by design)",
    "step_agree": "skeletons with parallel states and history (item label); every publicly reachable (configuration, history) pair, every active source, every node as target, reenter in {T,F}: both engines end in the same configuration with the same ordered entry/exit/transition markers, each carrying the triggering event and its payload",
    "resolve_agree": "skeletons with ambiguous keys (CUR8: B.A beside A, custom ids; CUR15: E>D>E, Q>Q, a child named like the machine; CUR9: Z.W beside W); source fixed per item; target = any str of <= L chars that a standard attempt resolves; every configuration/history; both engines must reach the same configuration",
    "engines_seq": "feature machine FM; event sequence of length N (item label) over a 13-letter alphabet, first event fixed per item; 5 guard outcomes symbolic, read lazily",
    "engines_step": "feature machine FM; every non-final legal configuration x recorded history of B in {absent,b1,b2} x context n in [0,3] x one event of the alphabet x guard outcomes",
    "pure_history": "feature machine without service; run GO, NEXT^k (k in {0,1}), LEAVE, HIST, NEXT through sync engine and pure API",
    "pure_is_pure": "feature machine FM; event sequence of length <= 2; deep fingerprint of machine and snapshot before/after",
}
ASSUMPTIONS = [
    "comparison at quiescence: the async interpreter is observed after queue.join() on the virtual-time loop",
    "generated ids do not occur in FM; the invoked service is synchronous and deterministic (returns context['n'])",
    "the pure API is compared on configuration/context/status/output and on the list of reported action types; features the pure probe does not execute by design (timers, services) are not part of FM's pure comparison item",
]
WALL_BUDGET = {"quick": 900.0, "thorough": 3300.0}

ALPHA = ["GO", "RAISE", "PURE", "ENQ", "NEXT", "BACK", "X", "LEAVE", "HIST", "SVC", "FIN", "PREV", "NOPE"]
GV: Dict[str, Any] = {}
_M: Dict[str, Any] = {}


def _note(m: str) -> None:
    EXPLAIN.append(m)


def _cp(v: Any) -> Any:
    """Cheap structural copy of the small JSON-like values FM uses
    (copy.deepcopy is very slow under tracing)."""
    if isinstance(v, dict):
        return {k: _cp(x) for k, x in v.items()}
    if isinstance(v, list):
        return [_cp(x) for x in v]
    return v


def _tr(s: str) -> Dict[str, Any]:
    return {"type": "tr", "params": {"s": s}}


def fm_config(with_service: bool = True) -> Dict[str, Any]:
    from xstate_statemachine import actions as A

    inc = A.assign(lambda a: {"n": a["context"]["n"] + 1})
    cfg: Dict[str, Any] = {
        "id": "m", "initial": "A", "context": {"n": 0, "seen": []},
        "states": {
            "A": {
                "entry": [inc],
                "on": {
                    "GO": {"target": "B", "guard": "g1", "actions": [
                        _tr("A.GO"),
                        A.choose([{"guard": "g2", "actions": [_tr("choose.1")]}, {"actions": [_tr("choose.2"), inc]}]),
                    ]},
                    "RAISE": {"actions": [A.raise_({"type": "E2", "v": 5}), _tr("A.RAISE")]},
                    "E2": {"actions": [_tr("A.E2"), A.assign({"n": lambda a: a["context"]["n"] + a["event"].payload.get("v", 0)})]},
                    "PURE": {"actions": [A.pure(lambda a: [_tr("pure.1"), _tr("pure.2")] if a["context"]["n"] % 2 else _tr("pure.odd"))]},
                    "ENQ": {"actions": [A.enqueue_actions(_enq_cb)]},
                    "X": "P",
                    "HIST": "#m.B.hist",
                    "SVC": "C",
                    "FIN": {"target": "F", "guard": "g5"},
                },
                "always": [{"guard": "g3", "target": "P", "actions": [_tr("A.always")]}],
            },
            "B": {
                "initial": "b1",
                "onDone": {"target": "P", "actions": [_tr("B.done")]},
                "on": {"BACK": "A", "LEAVE": "A", "PREV": "#m.B.hist"},
                "states": {
                    "b1": {"on": {"NEXT": "b2"}},
                    "b2": {"entry": [inc], "on": {"NEXT": "bf", "GO": {"target": "b1", "actions": [_tr("b2.GO")]}}},
                    "bf": {"type": "final", "output": {"why": "bf"}},
                    "hist": {"type": "history"},
                },
            },
            "P": {
                "type": "parallel",
                "on": {"X": {"actions": [_tr("P.X")]}, "LEAVE": "A", "HIST": "#m.B.hist", "FIN": "F"},
                "states": {
                    "R1": {"initial": "a", "states": {"a": {"on": {"X": "a2"}}, "a2": {"exit": [_tr("a2.exit")]}}},
                    "R2": {"initial": "c", "states": {"c": {"on": {"X": {"target": "c2", "guard": "g4"}}}, "c2": {"exit": [_tr("c2.exit")]}}},
                },
            },
            "F": {"type": "final", "output": lambda a: {"n": a["context"]["n"]}},
        },
    }
    if with_service:
        cfg["states"]["C"] = {
            "invoke": {"src": "svc", "id": "theSvc", "onDone": {"target": "A", "actions": [_tr("C.done")]}},
            "on": {"BACK": "A"},
        }
    else:
        cfg["states"]["C"] = {"on": {"BACK": "A"}}
    return common.mark(cfg)


def _enq_cb(a: Dict[str, Any]) -> None:
    enq = a["enqueue"]
    enq(_tr("enq.1"))
    if a["check"]("g2"):
        enq(_tr("enq.g2"))
    enq.assign({"n": a["context"]["n"] + 100})


def _svc(interp: Any, ctx: Any, event: Any) -> Any:
    return ctx["n"]


def _mk_guard(name: str) -> Any:
    def g(ctx: Any, event: Any) -> bool:
        return bool(GV["fn"](name))

    return g


def _machine(name: str = "FM") -> Any:
    m = _M.get(name)
    if m is None:
        from xstate_statemachine import create_machine

        env.install()
        guards = {f"g{i}": _mk_guard(f"g{i}") for i in range(1, 6)}
        m = create_machine(fm_config(name == "FM"), logic=make_logic(guards=guards, services={"svc": _svc}))
        env.pin_hashes(m)
        _M[name] = m
    return m


def set_params(p: Dict[str, Any]) -> None:
    global P
    P = p
    if "kind" in p:
        from harness import c13

        c13.set_params({"kind": p["kind"]})
        return
    if "sid" in p:
        from harness import c01 as base

        base.set_params(p)
        return
    _machine("FM")
    _machine("FMP")


def _guards(vals: List[Any]) -> Any:
    cache: Dict[str, bool] = {}

    def fn(name: str) -> bool:
        if name not in cache:
            cache[name] = True if vals[int(name[1:]) - 1] else False
        return cache[name]

    fn.cache = cache  # type: ignore[attr-defined]
    return fn


class _Acts:
    """on_action_execute log: (action type, marker or None)."""

    def __init__(self) -> None:
        self.log: List[Any] = []

    def on_action_execute(self, interp: Any, action_def: Any) -> None:
        p = action_def.params
        self.log.append((action_def.type, p.get("s") if isinstance(p, dict) else None))

    def on_transition(self, *a: Any) -> None:
        return None

    def on_event_received(self, *a: Any) -> None:
        return None


def _obs(it: Any, rec: List[Any], acts: _Acts) -> Any:
    return {
        "cfg": sorted(n.id for n in it._active_state_nodes),
        "ctx": _cp(it.context),
        "status": it.status,
        "output": _cp(it.output),
        "markers": [(k, s, getattr(e, "type", None), _payload(e)) for k, s, e in rec],
        "acts": list(acts.log),
    }


def _payload(e: Any) -> Any:
    if hasattr(e, "payload"):
        return dict(e.payload)
    if hasattr(e, "data"):
        return e.data
    return None


def _run_sync(m: Any, evs: List[str]) -> List[Any]:
    from xstate_statemachine import SyncInterpreter

    it = SyncInterpreter(m)
    rec: List[Any] = []
    it.__dict__["_rec"] = rec
    acts = _Acts()
    it.use(acts)
    out = []
    it.start()
    out.append(_obs(it, rec, acts))
    for e in evs:
        del rec[:]
        del acts.log[:]
        it.send(e)
        out.append(_obs(it, rec, acts))
    it.stop()
    return out


def _run_async(m: Any, evs: List[str]) -> List[Any]:
    from xstate_statemachine import Interpreter

    it = Interpreter(m)
    rec: List[Any] = []
    it.__dict__["_rec"] = rec
    acts = _Acts()
    it.use(acts)
    out: List[Any] = []

    async def go() -> None:
        import asyncio

        await it.start()
        await _settle(it)
        out.append(_obs(it, rec, acts))
        for e in evs:
            del rec[:]
            del acts.log[:]
            await it.send(e)
            await _settle(it)
            out.append(_obs(it, rec, acts))
        await it.stop()

    common.drive(go())
    return out


async def _settle(it: Any) -> None:
    """Quiescence: queue drained and no service task of the interpreter left
    runnable (service tasks complete in zero virtual time here)."""
    import asyncio

    for _ in range(20):
        await it._event_queue.join()
        await asyncio.sleep(0)
        await asyncio.sleep(0)
        if it._event_queue.empty() and not any(not t.done() for ts in it.task_manager._tasks_by_owner.values() for t in ts):
            break
    await it._event_queue.join()


def _diff(a: Any, b: Any, keys: List[str]) -> Optional[str]:
    for k in keys:
        if a[k] != b[k]:
            return f"{k}: {a[k]!r} vs {b[k]!r}"
    return None


def engines_seq(e1: int, e2: int, e3: int, b1: bool, b2: bool, b3: bool, b4: bool, b5: bool) -> bool:
    """
    pre: gate('engines_seq', e1=e1, e2=e2, e3=e3, b1=b1, b2=b2, b3=b3, b4=b4, b5=b5)
    post: _
    """
    m = _machine("FM")
    n = P["N"]
    evs = [P["first"]] + [ALPHA[pick(s, len(ALPHA))] for s in [e1, e2, e3][: n - 1]]
    LASTRUN["evs"] = evs
    GV["fn"] = _guards([b1, b2, b3, b4, b5])
    s = _run_sync(m, evs)
    GV["fn"] = _guards([b1, b2, b3, b4, b5])
    a = _run_async(m, evs)
    ok = True
    # start() has no triggering event: the synthetic init event each engine hands to
    # entry actions is not compared, only which actions ran
    s[0]["markers"] = [(k, st) for k, st, _t, _p in s[0]["markers"]]
    a[0]["markers"] = [(k, st) for k, st, _t, _p in a[0]["markers"]]
    for i in range(len(s)):
        d = _diff(s[i], a[i], ["cfg", "ctx", "status", "output", "markers", "acts"])
        if d:
            _note(f"sync vs async after start()+{evs[:i]} guards={GV['fn'].cache}: {d}")
            ok = False
            break
    nontrivial = any(len(o["markers"]) > 0 for o in s[1:])
    return verdict(ok, nontrivial=nontrivial)


LASTRUN: Dict[str, Any] = {}


def _step_engine(m: Any, eng: int, active: List[Any], hist: Optional[List[Any]], n0: int, ev: str) -> Any:
    """One event from a constructed (configuration, history, context)."""
    from xstate_statemachine import Interpreter, SyncInterpreter

    rec: List[Any] = []
    acts = _Acts()
    it = (SyncInterpreter if eng == 0 else Interpreter)(m)
    it.__dict__["_rec"] = rec
    it.use(acts)
    it.status = "running"
    it._active_state_nodes = set(active)
    it.context["n"] = n0
    if hist:
        it._history["m.B"] = list(hist)
    if eng == 0:
        it.send(ev)
        return _obs(it, rec, acts)
    box: List[Any] = []

    async def go() -> None:
        import asyncio

        it._event_loop_task = asyncio.ensure_future(it._run_event_loop())
        await it.send(ev)
        await _settle(it)
        box.append(_obs(it, rec, acts))
        await it.stop()

    common.drive(go())
    return box[0]


def engines_step(c0: int, c1: int, c2: int, c3: int, hsel: int, n0: int, evsel: int,
                 b1: bool, b2: bool, b3: bool, b4: bool, b5: bool) -> bool:
    """
    pre: 0 <= n0 <= 3
    pre: gate('engines_step', evsel=evsel)
    post: _
    """
    from harness.common import Chooser, build_config

    m = _machine("FM")
    active = build_config(m, Chooser([c0, c1, c2, c3]))
    if any(a.key in ("bf", "F") for a in active):
        return verdict(True, nontrivial=False)  # final states: transient / machine done
    by = {n.id: n for n in model.doc_order(m)}
    hv = pick(hsel, 3)
    hist = None if hv == 0 else [by["m.B.b1"] if hv == 1 else by["m.B.b2"]]
    ev = ALPHA[pick(evsel, len(ALPHA))]
    GV["fn"] = _guards([b1, b2, b3, b4, b5])
    s = _step_engine(m, 0, active, hist, n0, ev)
    GV["fn"] = _guards([b1, b2, b3, b4, b5])
    a = _step_engine(m, 1, active, hist, n0, ev)
    d = _diff(s, a, ["cfg", "ctx", "status", "output", "markers", "acts"])
    if d:
        _note(f"sync vs async on {ev} from {sorted(x.id for x in active)} hist={hv} n={n0} guards={GV['fn'].cache}: {d}")
    return verdict(d is None, nontrivial=len(s["markers"]) > 0)


def pure_history(k: int, b1: bool, b2: bool, b3: bool, b4: bool, b5: bool) -> bool:
    """
    pre: gate('pure_history', k=k)
    post: _
    """
    m = _machine("FMP")
    evs = ["GO"] + ["NEXT"] * pick(k, 2) + ["LEAVE", "HIST", "NEXT"]
    GV["fn"] = _guards([b1, b2, b3, b4, b5])
    s = _run_sync(m, evs)
    GV["fn"] = _guards([b1, b2, b3, b4, b5])
    p = _run_pure(m, evs)
    ok = True
    for i in range(len(s)):
        d = _diff(s[i], p[i], ["cfg", "ctx", "status", "output", "acts"])
        if d:
            _note(f"sync vs pure after initial+{evs[:i]}: {d}")
            ok = False
            break
    return verdict(ok)


def _run_pure(m: Any, evs: List[str]) -> List[Any]:
    from xstate_statemachine.helpers import initial_transition, transition

    out = []
    snap, acts = initial_transition(m)
    out.append({"cfg": sorted(snap.configuration), "ctx": _cp(snap.context),
                "status": "running" if snap.status == "active" else snap.status, "output": _cp(snap.output),
                "acts": [(a.type, a.params.get("s") if isinstance(a.params, dict) else None) for a in acts]})
    for e in evs:
        snap, acts = transition(m, snap, e)
        out.append({"cfg": sorted(snap.configuration), "ctx": _cp(snap.context),
                    "status": "running" if snap.status == "active" else snap.status, "output": _cp(snap.output),
                    "acts": [(a.type, a.params.get("s") if isinstance(a.params, dict) else None) for a in acts]})
    return out


def kf_pure_history(**a: Any) -> bool:
    """the run takes a history transition after the history parent was left
    (PureSnapshot carries no history)."""
    evs = [P["first"]] + [ALPHA[pick(s, len(ALPHA))] for s in [a["e1"], a["e2"], a["e3"]][: P["N"] - 1]]
    return "HIST" in evs


def kf_pure_followups(**a: Any) -> bool:
    """the run uses an action whose effect the pure probe does not expand:
    raise / choose / pure / enqueueActions."""
    evs = [P["first"]] + [ALPHA[pick(s, len(ALPHA))] for s in [a["e1"], a["e2"], a["e3"]][: P["N"] - 1]]
    return any(e in ("RAISE", "PURE", "ENQ", "GO") for e in evs)


def pure_seq(e1: int, e2: int, e3: int, b1: bool, b2: bool, b3: bool, b4: bool, b5: bool) -> bool:
    """
    pre: gate('pure_seq', e1=e1, e2=e2, e3=e3, b1=b1, b2=b2, b3=b3, b4=b4, b5=b5)
    post: _
    """
    m = _machine("FMP")
    n = P["N"]
    evs = [P["first"]] + [ALPHA[pick(s, len(ALPHA))] for s in [e1, e2, e3][: n - 1]]
    GV["fn"] = _guards([b1, b2, b3, b4, b5])
    s = _run_sync(m, evs)
    GV["fn"] = _guards([b1, b2, b3, b4, b5])
    p = _run_pure(m, evs)
    ok = True
    for i in range(len(s)):
        d = _diff(s[i], p[i], ["cfg", "ctx", "status", "output"])
        if d is None:
            # reported actions: same ordered list of action types/markers as executed
            if [x for x in s[i]["acts"]] != [x for x in p[i]["acts"]]:
                d = f"executed actions {s[i]['acts']} vs reported {p[i]['acts']}"
        if d:
            _note(f"sync vs pure after initial+{evs[:i]} guards={GV['fn'].cache}: {d}")
            ok = False
            break
    return verdict(ok)


def _fingerprint(m: Any) -> Any:
    out = []
    for n in model.doc_order(m):
        trans = []
        for ev, ts in n.on.items():
            for t in ts:
                trans.append((ev, t.target_str, t.reenter, t.guard, tuple(a.type for a in t.actions)))
        od = (n.on_done.target_str if n.on_done else None)
        out.append((n.id, n.type, n.initial, n.history, n.target_str, tuple(trans), od,
                    tuple(a.type for a in n.entry), tuple(a.type for a in n.exit),
                    tuple((i.id, i.src) for i in n.invoke)))
    return out


def pure_is_pure(e1: int, e2: int, b1: bool, b2: bool, b3: bool, b4: bool, b5: bool) -> bool:
    """
    pre: gate('pure_is_pure', e1=e1, e2=e2)
    post: _
    """
    from xstate_statemachine.helpers import initial_transition, transition

    m = _machine("FM")
    GV["fn"] = _guards([b1, b2, b3, b4, b5])
    calls: List[str] = []
    orig_tr = m.logic.actions["tr"]
    orig_svc = m.logic.services["svc"]
    m.logic.actions["tr"] = lambda *a: calls.append("tr")
    m.logic.services["svc"] = lambda *a: calls.append("svc")
    try:
        fp0 = _fingerprint(m)
        ctx0 = _cp(m.initial_context)
        snap, _acts = initial_transition(m)
        evs = [ALPHA[pick(e1, len(ALPHA))], ALPHA[pick(e2, len(ALPHA))]]
        ok = True
        for e in evs:
            before = (set(snap.state_ids), set(snap.configuration), _cp(snap.context), snap.status, _cp(snap.output))
            snap2, _a = transition(m, snap, e)
            after = (set(snap.state_ids), set(snap.configuration), snap.context, snap.status, snap.output)
            if before != after:
                _note(f"transition() modified the snapshot passed in on {e}")
                ok = False
                break
            if snap2.context is snap.context and snap2 is not snap:
                _note("transition() returned a snapshot sharing the context object of its argument")
                ok = False
                break
            snap = snap2
        if ok and calls:
            _note(f"the pure API ran user code: {calls}")
            ok = False
        if ok and _fingerprint(m) != fp0:
            _note("the pure API modified the machine definition")
            ok = False
        if ok and m.initial_context != ctx0:
            _note("the pure API modified the machine's initial context")
            ok = False
    finally:
        m.logic.actions["tr"] = orig_tr
        m.logic.services["svc"] = orig_svc
    return verdict(ok)


def resolve_agree(c0: int, c1: int, c2: int, c3: int, c4: int, c5: int, hsel: int, tgt: str, reenter: bool) -> bool:
    """
    pre: 0 < len(tgt) <= P['maxlen']
    pre: gate('resolve_agree', c0=c0, c1=c1, c2=c2, c3=c3, c4=c4, c5=c5, hsel=hsel, tgt=tgt, reenter=reenter)
    post: _
    """
    from xstate_statemachine.events import Event
    from xstate_statemachine.models import TransitionDefinition

    from harness import c01 as base

    sk = base._sk()
    src = sk.nodes[P["src"]]
    if not base._resolvable(tgt, src, sk.machine):
        return verdict(True, nontrivial=False)
    res: List[Any] = []
    for eng in (0, 1):
        pre = base._prestate(sk, eng, [c0, c1, c2, c3, c4, c5], hsel)
        if pre is None:
            return verdict(True, nontrivial=False)
        interp, active, _watch = pre
        if not any(a is src for a in active):
            return verdict(True, nontrivial=False)
        tr = TransitionDefinition("E", {"target": tgt, "reenter": True if reenter else False}, source=src)
        err = base._run_transition(interp, eng, tr, Event("E"))
        res.append((err, sorted(n.id for n in interp._active_state_nodes), sorted(n.id for n in active)))
    ok = res[0][:2] == res[1][:2]
    if not ok:
        EXPLAIN.append(f"{sk.sid if hasattr(sk, 'sid') else ''} source {src.id} target {tgt!r} reenter={bool(reenter)} from {res[0][2]}: "
                       f"sync -> {res[0][1]} ({res[0][0]}), async -> {res[1][1]} ({res[1][0]})")
    return verdict(ok, nontrivial=res[0][1] != res[0][2])


def step_agree(c0: int, c1: int, c2: int, c3: int, c4: int, c5: int, hsel: int, srcsel: int, tgt: int, reenter: bool) -> bool:
    """
    pre: gate('step_agree', c0=c0, c1=c1, c2=c2, c3=c3, c4=c4, c5=c5, hsel=hsel, srcsel=srcsel, tgt=tgt, reenter=reenter)
    post: _
    """
    from xstate_statemachine.events import Event
    from xstate_statemachine.models import TransitionDefinition

    from harness import c01 as base

    sk = base._sk()
    target = base._node_for(tgt)
    res: List[Any] = []
    src_id = None
    for eng in (0, 1):
        pre = base._prestate(sk, eng, [c0, c1, c2, c3, c4, c5], hsel)
        if pre is None:
            return verdict(True, nontrivial=False)
        interp, active, _watch = pre
        src = active[pick(srcsel, len(active))]
        src_id = src.id
        tr = TransitionDefinition("E", {"target": "#" + target.id, "reenter": True if reenter else False}, source=src)
        err = base._run_transition(interp, eng, tr, Event("E", {"k": 1}))
        log = [(k, s_, getattr(e, "type", None), getattr(e, "payload", None) == {"k": 1}) for k, s_, e in interp.__dict__.get("_rec", [])]
        res.append((err, sorted(n.id for n in interp._active_state_nodes), log, sorted(n.id for n in active)))
    ok = res[0][:3] == res[1][:3]
    if not ok:
        what = "configuration" if res[0][1] != res[1][1] else ("outcome" if res[0][0] != res[1][0] else "ordered entry/exit/transition actions (with their event)")
        EXPLAIN.append(f"{src_id} -> #{target.id} reenter={bool(reenter)} from {res[0][3]}: the engines differ in the {what}: "
                       f"sync {res[0][0]} {res[0][1]} {[(k, s_) for k, s_, _t, _p in res[0][2]]} vs async {res[1][0]} {res[1][1]} {[(k, s_) for k, s_, _t, _p in res[1][2]]}")
    return verdict(ok, nontrivial=res[0][1] != res[0][3])


# ---------------------------------------------------------------------------
# chains that the maxIterations bound cuts: both engines cut at the same place
# ---------------------------------------------------------------------------

CUT_KINDS = ["always", "donestate", "par_always", "raise", "alw_raise", "entry_raise", "raise2"]
RAISE_FAMILY = ("raise", "alw_raise", "entry_raise", "raise2")


def cut_agree(mi: int, L: int, inf: bool, at_start: bool) -> bool:
    """
    pre: 0 <= L <= 7
    pre: gate('cut_agree', mi=mi, L=L, inf=inf, at_start=at_start)
    post: _
    """
    from harness import c13

    kind = P["kind"]
    k = 1 + pick(mi, 5)
    length = c13.INF if inf else L
    try:
        a = c13.run_chain(0, k, kind, length, bool(at_start))
        b = c13.run_chain(1, k, kind, length, bool(at_start))
    except c13.FuelExhausted as e:
        _note(f"chain kind {kind} maxIterations={k} L={'inf' if inf else L} at_start={bool(at_start)}: not cut ({e})")
        return verdict(False)
    ok = a == b
    if not ok:
        _note(f"chain kind {kind}, maxIterations={k}, natural length {'inf' if inf else L}, triggered by {'start()' if at_start else 'an event'}: "
              f"sync ran {len(a['steps'])} steps -> {a['cfg'][-1]} {a['ctx']} {a['status']}; asyncio ran {len(b['steps'])} steps -> {b['cfg'][-1]} {b['ctx']} {b['status']}")
    return verdict(ok, nontrivial=bool(inf) or L > k)


def kf_cut_raise_chain_at_start(at_start: Any = False, **_k: Any) -> bool:
    """Known finding C05-start-raise-chain-cut-differs: a self-raise chain longer than maxIterations that is triggered by
    start() (first link raised by an entry action) is cut one link later by the asyncio engine than by the sync engine."""
    return bool(at_start)


def kf_applies_cut_raise(params: Dict[str, Any]) -> bool:
    return params.get("kind") in RAISE_FAMILY


OBLIGATIONS = {"cut_agree": cut_agree, "engines_step": engines_step, "pure_history": pure_history, "engines_seq": engines_seq, "pure_seq": pure_seq, "pure_is_pure": pure_is_pure,
               "resolve_agree": resolve_agree, "step_agree": step_agree}
PROBES = {
    "engines_seq": [{"b1": True, "e1": 4, "e2": 4}, {"b1": True, "b3": True}],
}


def items(tier: str, seed: int) -> List[Dict[str, Any]]:
    quick = tier == "quick"
    out: List[Dict[str, Any]] = []
    n = 2 if quick else 3
    for first in ALPHA[:-1]:
        out.append({"ob": "engines_seq", "params": {"first": first, "N": n}, "timeout": 280 if quick else 2400,
                    "label": f"engines_seq[first={first},N={n}]"})
    for first in ALPHA[:-1]:
        out.append({"ob": "pure_seq", "params": {"first": first, "N": 2 if quick else 3}, "timeout": 200 if quick else 1500,
                    "label": f"pure_seq[first={first},N={2 if quick else 3}]"})
    for kind in CUT_KINDS:
        out.append({"ob": "cut_agree", "params": {"kind": kind}, "timeout": 280 if quick else 900, "label": f"cut_agree[{kind}]"})
    out.append({"ob": "pure_is_pure", "params": {}, "timeout": 200, "label": "pure_is_pure"})
    out.append({"ob": "pure_history", "params": {}, "timeout": 200, "label": "pure_history"})
    out.append({"ob": "engines_step", "params": {}, "timeout": 280 if quick else 900, "label": "engines_step"})
    # the two engines resolve every target spelling to the same state: skeletons with ambiguous keys
    from vf import skeletons

    for sid in (("CUR3", "CUR4", "CUR7", "CUR13", "CUR16") if quick else ("CUR3", "CUR4", "CUR5", "CUR6", "CUR7", "CUR10", "CUR11", "CUR13", "CUR14", "CUR16")):
        spec = skeletons.CURATED[sid]
        from harness import c01 as _b

        n = _b._count_nodes(spec)
        for t in range(n):
            out.append({"ob": "step_agree", "params": {"sid": sid, "spec": spec, "tgts": [t, t + 1]}, "timeout": 300 if quick else 900,
                        "label": f"step_agree[{sid},tgt={t}]"})
    for sid, srcs in (("CUR8", (0, 1, 5, 6)), ("CUR15", (2, 3, 4, 9, 13)), ("CUR9", (0, 1, 8))):
        spec = skeletons.CURATED[sid]
        L = 4 if quick else 6
        for src in srcs:
            out.append({"ob": "resolve_agree", "params": {"sid": sid, "spec": spec, "src": src, "maxlen": L}, "timeout": 300 if quick else 1500,
                        "path_timeout": 40, "label": f"resolve_agree[{sid},src={src},L={L}]"})
    return out
