"""C13 - every macrostep terminates and never starves the host (bounded-fuel
formulation).

  cycle_bounded  machines containing each feedback path - mutually enabling
      `always`, an action raising its own trigger, an onDone that re-completes
      its own state, done.invoke of a sync service re-entering the invoking
      state, parallel regions each running an `always` chain - with symbolic
      maxIterations in [1,5], natural chain length L in [0,7] or unbounded, and
      the trigger given by start() or by an event. A fuel counter raises a
      dedicated BaseException when more than F = 6*(maxIterations+3)+L chain
      steps run inside one start()/send(). Oracle: the call returns within
      fuel; if L <= maxIterations the chain runs to its natural end; the
      configuration is legal afterwards and the next event is processed.
  burst          external send_events()/send() bursts of symbolic size are all
      processed whatever maxIterations is (the bound never throttles outside
      traffic), also while a delayed self-raise is pending.
  yields         (async) while a long chain runs, a heartbeat task on the same
      loop makes progress at least once per maxIterations+3 processed events.
"""
from __future__ import annotations

from typing import Any, Dict, List, Optional

from vf import env, model, vloop, vthread
from vf.kf import gate, verdict
from vf.logic import make_logic
from harness import common
from harness.common import pick

PROPERTY = "C13"
P: Dict[str, Any] = {}
EXPLAIN: List[str] = []
EXPLANATION = (
    "C13 (termination): CrossHair executes start()/send()/send_events(), the always-settling loops, the sync drain bound "
    "and the async raise-chain breaker of both engines on machines with feedback paths; maxIterations, the natural "
    "chain length, the trigger and burst sizes are symbolic; a fuel counter turns non-termination into a counterexample."
)
NONTRIVIAL_RULE = "ran a feedback chain of at least one step or a burst of at least two events"
BOUNDS = {
    "cycle_bounded": "chain kind fixed per item out of {always, raise, done.state, done.invoke, parallel-always, event->always-with-raise, event->entry-raise->event-with-raise}; maxIterations in [1,5]; natural length L in [0,7] or unbounded; trigger in {start(), event}; both engines",
    "burst": "maxIterations in [1,5]; burst size n in [0,8]; event kind in {plain, re-arming a delayed self-raise, forwarded to a child actor (async)}; with/without a pending delayed self-raise; send() one by one or send_events(); both engines",
    "residue": "machine RZ (nested pure/choose/enqueueActions expansions that succeed or fail at depth 1-3, a raised event whose handler fails, a choose guard that raises); event sequences of length N (3 quick / 4 thorough) over 7 events; both engines; after every event, at rest, _action_depth / _raise_depth / _is_processing equal their values after start() - an inductive step: no residue per event means no accumulation over histories of any length",
    "yields": "async engine; maxIterations in [1,4]; chain kind in {raise, done.state}; unbounded chain cut by the engine, heartbeat period 0",
}
ASSUMPTIONS = [
    "termination is claimed only in the bounded-fuel sense: for maxIterations <= 5 and the listed feedback kinds, every call returns within F chain steps",
    "virtual time as in C08",
]
WALL_BUDGET = {"quick": 900.0, "thorough": 3300.0}

KINDS = ["always", "raise", "donestate", "doneinvoke", "par_always", "alw_raise", "entry_raise", "raise2"]
CTL: Dict[str, Any] = {}
_M: Dict[str, Any] = {}
INF = 10 ** 6


class FuelExhausted(BaseException):
    pass


def _note(m: str) -> None:
    EXPLAIN.append(m)


def _burn(what: str) -> None:
    CTL["steps"].append(what)
    if len(CTL["steps"]) > CTL["fuel"]:
        CTL["out"] = True
        raise FuelExhausted(f"more than {CTL['fuel']} chain steps in one call")


def _inc(i: Any, c: Any, e: Any, a: Any) -> None:
    c["n"] += 1
    _burn("step")


def _inc2(i: Any, c: Any, e: Any, a: Any) -> None:
    c["n2"] += 1
    _burn("step2")


def _ping(i: Any, c: Any, e: Any, a: Any) -> None:
    CTL["pings"].append(getattr(e, "payload", {}).get("k") if hasattr(e, "payload") else None)


def _lt(c: Any, e: Any) -> bool:
    return c["n"] < CTL["L"]


def _lt2(c: Any, e: Any) -> bool:
    return c["n2"] < CTL["L"]


def _svc(i: Any, c: Any, e: Any) -> Any:
    return 1


TRIGGER = {"always": "ALW", "raise": "RAISE", "donestate": "DONE", "doneinvoke": "SVC", "par_always": "PAR", "alw_raise": "KICK", "entry_raise": "EK", "raise2": "RAISE2"}


def cm_config(k: int) -> Dict[str, Any]:
    from xstate_statemachine import actions as A

    return {
        "id": "m", "initial": "Idle", "maxIterations": k, "context": {"n": 0, "n2": 0},
        "states": {
            "Idle": {"on": {
                "ALW": "A1", "DONE": "C", "SVC": "W", "PAR": "P",
                # mixed chains: the feedback link is raised during the eventless phase / by an entry action
                # a handler that raises its own trigger AND a harmless side event: two queued events per link
                "RAISE2": {"actions": ["inc", A.choose([{"guard": "lt", "actions": [A.raise_("RAISE2"), A.raise_("SIDE")]}])]},
                "SIDE": {"actions": []},
                "KICK": {"target": "H", "actions": ["inc"]},
                "EK": {"target": "E", "actions": ["inc"]},
                "RAISE": {"actions": ["inc", A.choose([{"guard": "lt", "actions": [A.raise_("RAISE")]}])]},
                "DRAISE": {"actions": [A.raise_("LATE", delay=20)]},
                # debounce pattern: every KEY re-arms a delayed self-raise under the same send id
                "KEY": {"actions": [{"type": "xstate.raise", "params": {"event": "LATE", "delay": 20, "id": "deb"}}, "ping"]},
                "LATE": {"actions": ["ping"]},
                "PING": {"actions": ["ping"]},
                # dispatcher pattern: every JOB is forwarded to a child actor that never replies
                "HIRE": {"actions": [{"type": "xstate.spawnChild", "params": {"src": "kid", "id": "w1"}}]},
                "JOB": {"actions": [{"type": "xstate.sendTo", "params": {"to": "w1", "event": "WORK"}}, "ping"]},
            }},
            "H": {"always": [{"target": "Idle", "actions": [A.choose([{"guard": "lt", "actions": [A.raise_("KICK")]}])]}]},
            "E": {"entry": [A.choose([{"guard": "lt", "actions": [A.raise_("EB")]}])],
                  "on": {"EB": {"target": "Idle", "actions": [A.raise_("EK")]}, "PING": {"actions": ["ping"]}}},
            "A1": {"always": [{"guard": "lt", "target": "A2", "actions": ["inc"]}], "on": {"PING": {"actions": ["ping"]}}},
            "A2": {"always": [{"guard": "lt", "target": "A1", "actions": ["inc"]}], "on": {"PING": {"actions": ["ping"]}}},
            "C": {
                "initial": "c1", "on": {"PING": {"actions": ["ping"]}},
                "onDone": {"target": "C", "guard": "lt", "reenter": True, "actions": ["inc"]},
                "states": {"c1": {"always": "cf"}, "cf": {"type": "final"}},
            },
            "W": {
                "on": {"PING": {"actions": ["ping"]}},
                "invoke": {"src": "svc", "id": "s1", "onDone": {"target": "W", "reenter": True, "guard": "lt", "actions": ["inc"]}},
            },
            "P": {
                "type": "parallel",
                "states": {
                    "R1": {"initial": "x1", "states": {
                        "x1": {"always": [{"guard": "lt", "target": "x2", "actions": ["inc"]}], "on": {"PING": {"actions": ["ping"]}}},
                        "x2": {"always": [{"guard": "lt", "target": "x1", "actions": ["inc"]}], "on": {"PING": {"actions": ["ping"]}}}}},
                    "R2": {"initial": "y1", "states": {
                        "y1": {"always": [{"guard": "lt2", "target": "y2", "actions": ["inc2"]}]},
                        "y2": {"always": [{"guard": "lt2", "target": "y1", "actions": ["inc2"]}]}}},
                },
            },
        },
    }


def start_config(k: int, kind: str) -> Dict[str, Any]:
    """Same machine whose initial state is already inside the chain (the
    chain is triggered by start())."""
    cfg = cm_config(k)
    cfg["initial"] = {"always": "A1", "donestate": "C", "doneinvoke": "W", "par_always": "P", "raise": "Idle", "alw_raise": "Idle", "entry_raise": "Idle", "raise2": "Idle"}[kind]
    if kind in ("raise", "raise2"):
        cfg["states"]["Idle"]["entry"] = [{"type": "xstate.raise", "params": {"event": TRIGGER[kind]}}]
    if kind in ("alw_raise", "entry_raise"):
        # these chains pass through Idle again: boot from a separate state whose entry raises the trigger once
        cfg["initial"] = "Boot"
        cfg["states"]["Boot"] = {"entry": [{"type": "xstate.raise", "params": {"event": TRIGGER[kind]}}],
                                 "on": {k: v for k, v in cfg["states"]["Idle"]["on"].items() if k in ("KICK", "EK")}}
    return cfg


def _machine(k: int, kind: Optional[str] = None) -> Any:
    key = f"CM{k}{kind or ''}"
    m = _M.get(key)
    if m is None:
        from xstate_statemachine import create_machine

        env.install()
        cfg = cm_config(k) if kind is None else start_config(k, kind)
        kid = create_machine({"id": "kid", "initial": "w", "states": {"w": {"on": {"WORK": {"actions": ["work"]}}}}},
                             logic=make_logic(actions={"work": lambda i, c, e, a: CTL["work"].append(1)}))
        env.pin_hashes(kid)
        m = create_machine(cfg, logic=make_logic(actions={"inc": _inc, "inc2": _inc2, "ping": _ping},
                                                  guards={"lt": _lt, "lt2": _lt2}, services={"svc": _svc, "kid": kid}))
        env.pin_hashes(m)
        _M[key] = m
    return m


def set_params(p: Dict[str, Any]) -> None:
    global P
    P = p
    vthread.install()
    for k in range(1, 6):
        _machine(k)
        for kind in KINDS:
            _machine(k, kind)




def cycle_bounded(eng: int, mi: int, L: int, inf: bool, at_start: bool) -> bool:
    """
    pre: 0 <= eng <= 1
    pre: 0 <= L <= 7
    pre: gate('cycle_bounded', eng=eng, mi=mi, L=L, inf=inf, at_start=at_start)
    post: _
    """
    from xstate_statemachine import Interpreter, SyncInterpreter
    from xstate_statemachine.exceptions import XStateMachineError

    kind = P["kind"]
    if eng == 1 and kind == "doneinvoke" and inf:
        # every link of this chain passes through a service task, i.e. through the event loop: the
        # async engine never blocks on it and there is no call that has to return (see `yields`)
        return verdict(True, nontrivial=False)
    k = 1 + pick(mi, 5)
    length = INF if inf else L
    CTL.update({"L": length, "steps": [], "pings": [], "out": False,
                "fuel": 6 * (k + 3) + (0 if inf else L) * (2 if kind == "par_always" else 1)})
    m = _machine(k, kind if at_start else None)
    why: Optional[str] = None
    info: Dict[str, Any] = {}
    try:
        if eng == 0:
            vthread.SCHED.reset(0.0)
            it = SyncInterpreter(m)
            it.start()
            if not at_start:
                it.send(TRIGGER[kind])
            info["steps_chain"] = len(CTL["steps"])
            CTL["fuel"] += 10
            it.send("PING", k=1)
            info["cfg"] = list(it._active_state_nodes)
            info["status"] = it.status
            it.stop()
        else:
            it = Interpreter(m)

            async def go() -> None:
                await it.start()
                if not at_start:
                    await it.send(TRIGGER[kind])
                await _drain(it)
                info["steps_chain"] = len(CTL["steps"])
                CTL["fuel"] += 10
                await it.send("PING", k=1)
                await _drain(it)
                info["cfg"] = list(it._active_state_nodes)
                info["status"] = it.status
                await it.stop()

            common.drive(go())
    except FuelExhausted as e:
        why = f"did not stop within fuel: {e}"
    except XStateMachineError as e:
        why = f"raised {type(e).__name__}: {e}"
    if why is None and CTL["out"]:
        why = f"did not stop within fuel ({CTL['fuel']} steps)"
    if why is None:
        steps = info["steps_chain"]
        per_chain = steps if kind != "par_always" else CTL["steps"][: steps].count("step")
        links = 2 * L if kind == "entry_raise" else L     # entry_raise has two raised events per counted step
        if not inf and links <= k:
            # (the RAISE handler itself counts one step before it decides whether to raise again)
            want = max(L, 1) if kind in ("raise", "alw_raise", "entry_raise", "raise2") else L
            if per_chain != want:
                why = f"natural chain of length {L} (<= maxIterations {k}) ran {per_chain} steps"
            if why is None and kind == "par_always" and CTL["steps"][: steps].count("step2") != L:
                why = f"second region's natural chain of length {L} ran {CTL['steps'][:steps].count('step2')} steps"
        if why is None and info["status"] != "running":
            why = f"status after the chain: {info['status']}"
        if why is None:
            r = model.legal_reason(info["cfg"], m)
            if r:
                why = f"configuration after the chain: {r}"
        if why is None and CTL["pings"] != [1]:
            why = f"the next event was not processed normally: pings={CTL['pings']}"
    if why:
        _note(f"{'sync' if eng == 0 else 'async'} {kind} maxIterations={k} L={'inf' if inf else L} at_start={bool(at_start)}: {why}")
    return verdict(why is None, nontrivial=len(CTL["steps"]) > 0)


async def _drain(it: Any) -> None:
    import asyncio

    for _ in range(400):
        busy = any(not t.done() for ts in it.task_manager._tasks_by_owner.values() for t in ts)
        if it._event_queue._unfinished_tasks == 0 and not busy:
            await asyncio.sleep(0)
            busy = any(not t.done() for ts in it.task_manager._tasks_by_owner.values() for t in ts)
            if it._event_queue._unfinished_tasks == 0 and not busy:
                return
        if it._event_loop_task is None or it._event_loop_task.done():
            return
        if CTL.get("out"):
            return
        await asyncio.sleep(0)


# ---------------------------------------------------------------------------
# residue: the counters that implement the bounds are back at rest after every event
# ---------------------------------------------------------------------------

RZ_EVENTS = ["OK", "B1", "B2", "B3", "RB", "OK2", "GB"]


def _rz_machine() -> Any:
    m = _M.get("RZ")
    if m is None:
        from xstate_statemachine import actions as A, create_machine

        env.install()

        def mark(i: Any, c: Any, e: Any, a: Any) -> None:
            CTL["marks"].append(e.type)

        def bad_guard(c: Any, e: Any) -> bool:
            raise ValueError("guard fault")

        cfg = {
            "id": "rz", "initial": "I", "context": {},
            "states": {"I": {"on": {
                # nested expansions that succeed (depth 3 and depth 2)
                "OK": {"actions": [A.pure(lambda a: [A.choose([{"actions": [A.enqueue_actions(lambda x: x["enqueue"]("mark"))]}])])]},
                "OK2": {"actions": [A.choose([{"actions": [A.pure(lambda a: ["mark"])]}])]},
                # nested expansions that FAIL at depth 1, 2, 3 (an action nobody implements)
                "B1": {"actions": [A.pure(lambda a: ["zz_missing"]), "mark"]},
                "B2": {"actions": [A.choose([{"actions": [A.pure(lambda a: ["zz_missing"])]}])]},
                "B3": {"actions": [A.enqueue_actions(lambda x: x["enqueue"](A.choose([{"actions": [A.pure(lambda a: ["zz_missing"])]}])))]},
                # a raised event whose handler fails; a choose branch whose guard raises
                "RB": {"actions": [A.raise_("HB")]},
                "HB": {"actions": [A.pure(lambda a: ["zz_missing"])]},
                "GB": {"actions": [A.choose([{"guard": "bad_guard", "actions": ["mark"]}, {"actions": ["mark"]}])]},
            }}},
        }
        m = create_machine(cfg, logic=make_logic(actions={"mark": mark}, guards={"bad_guard": bad_guard}))
        env.pin_hashes(m)
        _M["RZ"] = m
    return m


def _counters(it: Any) -> Dict[str, Any]:
    return {k: getattr(it, k) for k in ("_action_depth", "_raise_depth", "_next_event_depth", "_is_processing") if hasattr(it, k)}


def residue(eng: int, e0: int, e1: int, e2: int, e3: int) -> bool:
    """
    pre: 0 <= eng <= 1
    pre: gate('residue', eng=eng, e0=e0, e1=e1, e2=e2, e3=e3)
    post: _
    """
    from xstate_statemachine import Interpreter, SyncInterpreter
    from xstate_statemachine.exceptions import XStateMachineError

    n = P.get("N", 3)
    evs = [RZ_EVENTS[pick(x, len(RZ_EVENTS))] for x in [e0, e1, e2, e3][:n]]
    CTL.update({"marks": [], "steps": [], "fuel": 10 ** 6, "out": False})
    m = _rz_machine()
    why: Optional[str] = None
    faults = 0
    if eng == 0:
        vthread.SCHED.reset(0.0)
        it = SyncInterpreter(m)
        it.start()
        base = _counters(it)
        for k, e in enumerate(evs):
            try:
                it.send(e)
            except XStateMachineError:
                faults += 1
            except ValueError:
                faults += 1
            now = _counters(it)
            if now != base and why is None:
                why = f"after event #{k + 1} {e} the interpreter is at rest but its bound counters are {now}, at start they were {base}"
        it.stop()
    else:
        it2 = Interpreter(m)
        box: Dict[str, Any] = {}

        async def go() -> None:
            await it2.start()
            box["base"] = _counters(it2)
            for k, e in enumerate(evs):
                try:
                    await it2.send(e)
                    await _drain(it2)
                except XStateMachineError:
                    pass
                now = _counters(it2)
                if now != box["base"] and "why" not in box:
                    box["why"] = f"after event #{k + 1} {e} the interpreter is at rest but its bound counters are {now}, at start they were {box['base']}"
            await it2.stop()

        common.drive(go())
        why = box.get("why")
    if why:
        _note(f"{'sync' if eng == 0 else 'async'} events={evs}: {why}")
    return verdict(why is None, nontrivial=any(e not in ("OK", "OK2") for e in evs))


def burst(eng: int, mi: int, n: int, pending: bool, batch: bool, arm: int, paced: bool = False) -> bool:
    """
    pre: 0 <= eng <= 1
    pre: 0 <= n <= 8
    pre: gate('burst', eng=eng, mi=mi, n=n, pending=pending, batch=batch)
    post: _
    """
    from xstate_statemachine import Interpreter, SyncInterpreter

    k = 1 + pick(mi, 5)
    CTL.update({"L": 0, "steps": [], "pings": [], "out": False, "fuel": 1000, "work": [], "rest": {}})
    m = _machine(k)
    nn = pick(n, 9)
    ak = pick(arm, 3) if eng == 1 else pick(arm, 2)  # (the sync engine's non-blocking spawn uses a polling OS thread)
    evs = [{"type": ["PING", "KEY", "JOB"][ak], "k": i} for i in range(nn)]
    if eng == 0:
        vthread.SCHED.reset(0.0)
        it = SyncInterpreter(m)
        it.start()
        if pending:
            it.send("DRAISE")
        if batch:
            it.send_events(evs)
        else:
            for e in evs:
                it.send(e)
        it.stop()
    else:
        it = Interpreter(m)

        async def go() -> None:
            await it.start()
            if ak == 2:
                await it.send("HIRE")
                await _drain(it)
            if pending:
                await it.send("DRAISE")
            if batch:
                await it.send_events(evs)
            else:
                for e in evs:
                    await it.send(e)
                    if paced:
                        await _drain(it)     # one at a time: the next event arrives when the interpreter is at rest
            await _drain(it)
            CTL["rest"] = _counters(it)
            await it.stop()

        common.drive(go())
    ok = CTL["pings"] == list(range(nn))
    if ok and eng == 1 and any(v not in (0, False) for v in CTL.get("rest", {}).values()):
        _note(f"at rest after the burst the bound counters are {CTL['rest']}")
        ok = False
    if ok and eng == 1 and ak == 2 and len(CTL["work"]) != nn:
        _note(f"child actor received {len(CTL['work'])} of {nn} forwarded events")
        ok = False
    if not ok:
        _note(f"{'sync' if eng == 0 else 'async'} maxIterations={k} burst of {nn} ({'send_events' if batch else 'send'}), delayed raise pending={bool(pending)}, event kind={['PING', 'KEY(re-arms a delayed raise)', 'JOB(forwarded to a child)'][ak]}: processed {CTL['pings']}")
    return verdict(ok, nontrivial=nn >= 2)


def yields(mi: int, kind: int) -> bool:
    """
    pre: gate('yields', mi=mi, kind=kind)
    post: _
    """
    import asyncio
    from xstate_statemachine import Interpreter

    k = 1 + pick(mi, 4)
    knd = ["raise", "donestate"][pick(kind, 2)]
    CTL.update({"L": INF, "steps": [], "pings": [], "out": False, "fuel": 6 * (k + 3)})
    m = _machine(k)
    it = Interpreter(m)
    beats: List[int] = []

    async def heart() -> None:
        while True:
            beats.append(len(CTL["steps"]))
            await asyncio.sleep(0)

    why: List[Optional[str]] = [None]

    async def go() -> None:
        await it.start()
        hb = asyncio.ensure_future(heart())
        await asyncio.sleep(0)
        await it.send(TRIGGER[knd])
        await _drain(it)
        hb.cancel()
        await it.stop()

    try:
        common.drive(go())
    except FuelExhausted as e:
        why[0] = f"chain not cut within fuel: {e}"
    if why[0] is None and CTL["out"]:
        why[0] = "chain not cut within fuel"
    if why[0] is None:
        # between two heartbeats at most k+3 chain steps
        for a, b in zip(beats, beats[1:]):
            if b - a > k + 3:
                why[0] = f"{b - a} chain steps ran between two heartbeats (maxIterations={k})"
                break
    if why[0]:
        _note(f"async {knd} maxIterations={k}: {why[0]}")
    return verdict(why[0] is None)


OBLIGATIONS = {"cycle_bounded": cycle_bounded, "burst": burst, "yields": yields, "residue": residue}
PROBES = {"cycle_bounded": [{"L": 3, "mi": 4}, {"L": 7, "mi": 1}, {"inf": True, "mi": 2}, {"eng": 1, "inf": True, "mi": 1}, {"eng": 1, "L": 2, "mi": 3, "at_start": True}],
          "burst": [{"eng": 1, "n": 8, "mi": 0, "arm": 1}, {"eng": 1, "n": 8, "mi": 1, "arm": 2}, {"n": 8, "mi": 0, "batch": True}, {"eng": 1, "n": 8, "mi": 0, "pending": True}, {"n": 5, "mi": 1}]}


def items(tier: str, seed: int) -> List[Dict[str, Any]]:
    quick = tier == "quick"
    out: List[Dict[str, Any]] = []
    for kind in KINDS:
        out.append({"ob": "cycle_bounded", "params": {"kind": kind}, "timeout": 300 if quick else 1500, "label": f"cycle_bounded[{kind}]"})
    out.append({"ob": "burst", "params": {}, "timeout": 300 if quick else 900, "label": "burst"})
    out.append({"ob": "yields", "params": {}, "timeout": 200, "label": "yields"})
    out.append({"ob": "residue", "params": {"N": 3 if quick else 4}, "timeout": 300 if quick else 1500, "label": f"residue[N={3 if quick else 4}]"})
    return out


def run_chain(eng: int, k: int, kind: str, length: Any, at_start: bool) -> Dict[str, Any]:
    """One chain run on one engine; returns what an observer can see afterwards (used by C05 `cut_agree`)."""
    from xstate_statemachine import Interpreter, SyncInterpreter

    CTL.update({"L": length, "steps": [], "pings": [], "out": False, "fuel": 8 * (k + 4) + (0 if length == INF else 2 * length) + 20})
    m = _machine(k, kind if at_start else None)
    info: Dict[str, Any] = {}
    if eng == 0:
        vthread.SCHED.reset(0.0)
        it = SyncInterpreter(m)
        it.start()
        if not at_start:
            it.send(TRIGGER[kind])
        info = {"steps": list(CTL["steps"]), "cfg": sorted(n.id for n in it._active_state_nodes), "ctx": dict(it.context), "status": it.status}
        it.stop()
        return info
    it = Interpreter(m)

    async def go() -> None:
        await it.start()
        if not at_start:
            await it.send(TRIGGER[kind])
        await _drain(it)
        info.update({"steps": list(CTL["steps"]), "cfg": sorted(n.id for n in it._active_state_nodes), "ctx": dict(it.context), "status": it.status})
        await it.stop()

    common.drive(go())
    return info
