"""C06 - guards gate transitions exactly.

  guard_tree   GuardDefinition(<generated expr>) + _is_guard_satisfied against
               a three-valued reference: the expression tree (and/or/not at
               depth <= D, operand spelling children / params.guards /
               params.children / params.guard) is built from symbolic shape
               choices; atoms are named guards whose outcome (true / false /
               raises / not implemented) is symbolic and read lazily.
  guard_atom   every atom form: string, {'type'}, literal params, callable
               params, stateIn (dict 'state'/'value', '#'-prefixed or not,
               user-defined stateIn wins), missing, raising.
  state_in     _is_state_in with an UNCONSTRAINED symbolic state name against
               every legal configuration of a skeleton.
  cond_alias   a transition / choose branch written with 'cond' behaves like
               'guard' under the same symbolic valuation (never unguarded).
  in_selection raising guard => later candidates and ancestor handlers stay
               eligible; missing guard reached => ImplementationMissingError
               from send() (sync) / logged and interpreter alive (async).
"""
from __future__ import annotations

import copy
from typing import Any, Dict, List, Optional, Tuple

from vf import env, model, skeletons
from vf.kf import gate, verdict
from vf.logic import make_logic
from harness import common
from harness.common import Chooser, build_config, pick

PROPERTY = "C06"
P: Dict[str, Any] = {}
EXPLAIN: List[str] = []
EXPLANATION = (
    "C06 (guards): CrossHair executes GuardDefinition.__init__, BaseInterpreter._is_guard_satisfied/_is_state_in/"
    "_resolve_params/_call_with_optional_params, TransitionDefinition (cond alias), the choose built-in and "
    "send() with symbolic expression shapes, operand spellings, atom outcomes and state-name strings."
)
NONTRIVIAL_RULE = "evaluated at least one atom (guard_tree/guard_atom), matched against a non-empty configuration (state_in) or selected among guarded candidates"
BOUNDS = {
    "guard_tree": "expression template fixed per item (7 templates, depth <= 3, <= 3 operands); every and/or operator and every node's operand spelling in {children, params.guards, params.children, params.guard(not only)} symbolic; 4 named atoms (string and object form) with outcome in {false,true,raise,missing} read lazily",
    "guard_atom": "atom form index in [0,14), outcome in {false,true,raise,missing}",
    "state_in": "state name = arbitrary str of <= L chars ('#'-prefixed or not), params in dict or string form; configuration fixed per item (3-4 configurations per skeleton)",
    "cond_alias": "key in {guard, cond} at transition and choose-branch level; outcome symbolic",
    "param_selection": "context value v = any int; candidates of one selection pass share a guard name and differ in (literal or computed) params, in one region and across two parallel regions, plus a composite over the same name; both engines",
    "in_selection": "three candidates (two on the child, one on the parent); each outcome in {false,true,raise,missing}; both engines",
}
ASSUMPTIONS = [
    "guard atoms are pure predicates whose outcome is a symbolic value fixed for the duration of one evaluation",
    "short-circuit evaluation left to right is the documented mechanism; a missing atom that the short-circuit order does not reach may or may not be reported",
]
WALL_BUDGET = {"quick": 600.0, "thorough": 3000.0}

ATOMS = ["p0", "p1", "p2", "p3"]


def set_params(p: Dict[str, Any]) -> None:
    global P
    P = p
    if p.get("sid"):
        _skel()
    _base_machine()


def _note(m: str) -> None:
    EXPLAIN.append(m)


# ---------------------------------------------------------------------------
# lazy atom outcomes
# ---------------------------------------------------------------------------

class Outcomes:
    def __init__(self, vars_: List[Any], limited: bool = False) -> None:
        self.vars = vars_
        self.limited = limited
        self.cache: Dict[str, int] = {}
        self.calls: List[Tuple[str, Any]] = []  # (name, params received)

    def of(self, name: str) -> int:
        if name in self.cache:
            return self.cache[name]
        i = ATOMS.index(name) if name in ATOMS else 0
        # p0: false/true/raise/missing; p1: false/true/raise; p2, p3: false/true
        v = pick(self.vars[i % len(self.vars)], [4, 3, 2, 2][i] if self.limited else 4)
        self.cache[name] = v
        return v


OUT: Dict[str, Any] = {}


class _Guards(dict):
    def get(self, name: Any, default: Any = None) -> Any:  # type: ignore[override]
        if name in ATOMS:
            o: Outcomes = OUT["o"]
            if o.of(name) == 3:
                return default  # not implemented
            return _impl(name)
        if name == "stateIn" and OUT.get("user_statein"):
            return _impl_statein
        return default

    def __contains__(self, name: Any) -> bool:
        return self.get(name) is not None

    def __getitem__(self, name: Any) -> Any:
        g = self.get(name)
        if g is None:
            raise KeyError(name)
        return g


_IMPLS: Dict[str, Any] = {}


def _impl(name: str) -> Any:
    f = _IMPLS.get(name)
    if f is None:
        def f(ctx: Any, event: Any, params: Any = "NOPARAMS", _n: str = name) -> bool:
            o: Outcomes = OUT["o"]
            o.calls.append((_n, params))
            v = o.of(_n)
            if v == 2:
                raise ValueError("guard raises")
            return v == 1

        _IMPLS[name] = f
    return f


def _impl_statein(ctx: Any, event: Any, params: Any = None) -> bool:
    OUT["user_statein_calls"] = OUT.get("user_statein_calls", 0) + 1
    return bool(OUT.get("user_statein_value"))


class _Hook:
    def __init__(self) -> None:
        self.evals: List[Tuple[str, bool]] = []

    def on_guard_evaluated(self, interp: Any, name: str, event: Any, result: bool) -> None:
        self.evals.append((name, bool(result)))

    def on_transition(self, *a: Any) -> None:
        return None

    def on_event_received(self, *a: Any) -> None:
        return None


_BASE: Dict[str, Any] = {}


def _base_machine() -> Any:
    m = _BASE.get("m")
    if m is None:
        from xstate_statemachine import create_machine

        env.install()
        cfg = {"id": "m", "initial": "A", "states": {"A": {"initial": "x", "states": {"x": {}, "bx": {}}}, "B": {}}}
        logic = make_logic()
        logic.guards = _Guards()
        m = create_machine(cfg, logic=logic)
        env.pin_hashes(m)
        _BASE["m"] = m
    return m


def _interp(machine: Any) -> Any:
    from xstate_statemachine import SyncInterpreter

    it = SyncInterpreter(machine)
    it.start()
    return it


# ---------------------------------------------------------------------------
# expression generator + reference
# ---------------------------------------------------------------------------

class MissingAtom(Exception):
    pass


def _atom(name: str) -> Tuple[Any, Any]:
    # p0/p2 in string form, p1/p3 in object form
    cfg: Any = name if name in ("p0", "p2") else {"type": name}
    return cfg, ("atom", name)


def _comp(ch: Chooser, subs: List[Tuple[Any, Any]], sp: Optional[int] = None) -> Tuple[Any, Any]:
    """and/or node with symbolic operator and operand spelling."""
    op = "and" if ch.choose(2) == 0 else "or"
    spelling = ch.choose(3) if sp is None else sp
    kids = [s[0] for s in subs]
    if spelling == 0:
        cfg: Any = {"type": op, "children": kids}
    elif spelling == 1:
        cfg = {"type": op, "params": {"guards": kids}}
    else:
        cfg = {"type": op, "params": {"children": kids}}
    return cfg, (op, [s[1] for s in subs])


def _neg(ch: Chooser, sub: Tuple[Any, Any]) -> Tuple[Any, Any]:
    spelling = ch.choose(3)
    if spelling == 0:
        cfg: Any = {"type": "not", "children": [sub[0]]}
    elif spelling == 1:
        cfg = {"type": "not", "params": {"guards": [sub[0]]}}
    else:
        cfg = {"type": "not", "params": {"guard": sub[0]}}
    return cfg, ("not", sub[1])


def gen_expr(ch: Chooser, template: int) -> Tuple[Any, Any]:
    """Expression templates (operators and operand spellings symbolic per
    node; atoms p0..p3 left to right). Returns (GuardDefinition config,
    reference tree ('atom', n) | (op, [trees]) | ('not', tree))."""
    a = [_atom(n) for n in ATOMS]
    if template == 0:
        return _comp(ch, [a[0], a[1]])
    if template == 1:
        return _neg(ch, _comp(ch, [a[0], a[1]]))
    if template == 2:
        return _comp(ch, [a[0], _comp(ch, [a[1], _neg(ch, a[2])])])
    if template == 3:
        sp = ch.choose(3)  # one operand spelling shared by the three and/or nodes
        return _comp(ch, [_neg(ch, _comp(ch, [a[0], a[1]], sp)), _comp(ch, [a[2], a[3]], sp)], sp)
    if template == 4:
        return _comp(ch, [_neg(ch, _neg(ch, a[0]))])
    if template == 5:
        return _comp(ch, [a[0], a[1], a[2]])
    return _neg(ch, a[0])


def ref_eval(tree: Any, o: Outcomes, seen: List[str]) -> bool:
    k = tree[0]
    if k == "atom":
        v = o.of(tree[1])
        if v == 3:
            raise MissingAtom(tree[1])
        seen.append(tree[1])
        return v == 1  # raise (2) counts as false
    if k == "and":
        for t in tree[1]:
            if not ref_eval(t, o, seen):
                return False
        return True
    if k == "or":
        for t in tree[1]:
            if ref_eval(t, o, seen):
                return True
        return False
    return not ref_eval(tree[1], o, seen)


def guard_tree(s0: int, s1: int, s2: int, s3: int, s4: int, s5: int, s6: int, s7: int, s8: int, s9: int,
               a0: int, a1: int, a2: int, a3: int) -> bool:
    """
    pre: gate('guard_tree', s0=s0)
    post: _
    """
    from xstate_statemachine.events import Event
    from xstate_statemachine.exceptions import ImplementationMissingError
    from xstate_statemachine.models import GuardDefinition

    ch = Chooser([s0, s1, s2, s3, s4, s5, s6, s7, s8, s9])
    cfg, tree = gen_expr(ch, P["T"])
    o = Outcomes([a0, a1, a2, a3], limited=P["T"] in (2, 3, 5))
    OUT["o"] = o
    OUT["user_statein"] = False
    it = _interp(_base_machine())
    hook = _Hook()
    it.use(hook)
    gd = GuardDefinition(cfg)
    got: Any
    try:
        got = it._is_guard_satisfied(gd, Event("E"))
    except ImplementationMissingError:
        got = "missing"
    seen: List[str] = []
    try:
        want: Any = ref_eval(tree, o, seen)
    except MissingAtom:
        want = "missing"
    ok = got == want
    if not ok and want != "missing" and got == "missing":
        # the engine reached a missing atom the short-circuit order does not reach: not allowed
        # either - short circuit is the documented mechanism (and()/or() helpers)
        ok = False
    if not ok:
        _note(f"guard {cfg!r}: engine {got!r}, reference {want!r}; outcomes={o.cache}")
    if ok and want != "missing":
        evs = [n for n, _r in hook.evals]
        if evs != seen:
            _note(f"on_guard_evaluated sequence {hook.evals} != evaluated atoms {seen}")
            ok = False
    return verdict(ok, nontrivial=True)


# ---------------------------------------------------------------------------
# atoms
# ---------------------------------------------------------------------------

def guard_atom(form: int, a0: int, usv: bool) -> bool:
    """
    pre: gate('guard_atom', form=form)
    post: _
    """
    from xstate_statemachine.events import Event
    from xstate_statemachine.exceptions import ImplementationMissingError
    from xstate_statemachine.models import GuardDefinition

    o = Outcomes([a0])
    OUT["o"] = o
    OUT["user_statein"] = False
    OUT["user_statein_calls"] = 0
    it = _interp(_base_machine())  # configuration: m, m.A, m.A.x
    f = pick(form, 14)
    ev = Event("E", {"n": 3})
    expect_params: Any = "NOPARAMS"
    want: Any = None
    if f == 0:
        cfg: Any = "p0"
    elif f == 1:
        cfg = {"type": "p0"}
    elif f == 2:
        cfg = {"type": "p0", "params": {"v": 5}}
        expect_params = {"v": 5}
    elif f == 3:
        cfg = {"type": "p0", "params": lambda a: {"v": a["event"].payload["n"] + 1, "ctx": a["context"] is it.context}}
        expect_params = {"v": 4, "ctx": True}
    elif f == 4:
        cfg = {"type": "stateIn", "params": {"state": "#m.A.x"}}
        want = True
    elif f == 5:
        cfg = {"type": "stateIn", "params": {"state": "m.A"}}
        want = True
    elif f == 6:
        cfg = {"type": "stateIn", "params": {"value": "A.x"}}
        want = True
    elif f == 7:
        cfg = {"type": "stateIn", "params": {"state": "#m.B"}}
        want = False
    elif f == 8:
        cfg = {"type": "stateIn", "params": {"state": "x"}}  # 'bx' is a sibling key ending in 'x' but inactive
        want = True
    elif f == 9:
        cfg = {"type": "stateIn", "params": lambda a: {"state": "#m.A.bx"}}
        want = False
    elif f == 10:
        # user-defined stateIn wins over the built-in
        OUT["user_statein"] = True
        OUT["user_statein_value"] = bool(usv)
        cfg = {"type": "stateIn", "params": {"state": "#m.B"}}
        want = bool(usv)
    elif f == 11:
        cfg = {"type": "not", "params": {"guard": {"type": "stateIn", "params": {"state": "#m.A.bx"}}}}
        want = True
    elif f == 12:
        cfg = {"type": "stateIn", "params": "A.x"}  # string-form params
        want = True
    else:
        cfg = {"type": "stateIn", "params": "x.A"}
        want = False
    gd = GuardDefinition(cfg)
    try:
        got: Any = it._is_guard_satisfied(gd, ev)
    except ImplementationMissingError:
        got = "missing"
    ok = True
    if want is None:
        v = o.of("p0")
        want = "missing" if v == 3 else (v == 1)
        if got != want:
            ok = False
        if ok and v != 3:
            if len(o.calls) != 1:
                _note(f"atom form {f}: implementation called {len(o.calls)} times")
                ok = False
            elif o.calls[0][1] != expect_params:
                _note(f"atom form {f}: implementation received params {o.calls[0][1]!r}, expected {expect_params!r}")
                ok = False
    else:
        if got != want:
            ok = False
        if f == 10 and OUT.get("user_statein_calls") != 1:
            _note("user-defined stateIn was not the one evaluated")
            ok = False
    if not ok:
        _note(f"atom form {f} cfg={cfg!r}: engine {got!r}, expected {want!r}")
    return verdict(ok)


# ---------------------------------------------------------------------------
# stateIn with a free string
# ---------------------------------------------------------------------------

SK: Any = None
CONFIGS: List[List[Any]] = []


def _skel() -> Any:
    global SK, CONFIGS
    SK = common.get_skel(P)
    CONFIGS = _all_configs(SK)
    return SK


def _state_in_ref(active: List[Any], name: str) -> bool:
    """True iff ``name`` (a leading '#' stripped) equals the id of an active
    state or a dot-segment suffix of it ('a.b' names '...a.b')."""
    if len(name) == 0:
        return False
    n = name[1:] if name[0] == "#" else name
    if len(n) == 0:
        return False
    for a in active:
        segs = a.id.split(".")  # concrete
        for i in range(len(segs)):
            if n == ".".join(segs[i:]):
                return True
    return False


def _all_configs(sk: Any) -> List[List[Any]]:
    """Every legal configuration of the skeleton (native enumeration)."""
    out: List[List[Any]] = []

    def rec(choices: List[int]) -> None:
        class _Ch:
            def __init__(self) -> None:
                self.i = 0
                self.need = 0

            def choose(self, n: int) -> int:
                if n <= 1:
                    return 0
                if self.i < len(choices):
                    k = choices[self.i]
                    self.i += 1
                    return k
                self.need = n
                raise IndexError

        ch = _Ch()
        try:
            cfg = build_config(sk.machine, ch)  # type: ignore[arg-type]
            out.append(cfg)
        except IndexError:
            for k in range(ch.need):
                rec(choices + [k])

    rec([])
    return out


def state_in(name: str) -> bool:
    """
    pre: len(name) <= P['L']
    pre: gate('state_in', name=name)
    post: _
    """
    from xstate_statemachine import SyncInterpreter
    from xstate_statemachine.events import Event
    from xstate_statemachine.models import GuardDefinition

    sk = SK
    active = CONFIGS[P["cfg"] % len(CONFIGS)]
    it = SyncInterpreter(sk.machine)
    it.status = "running"
    it._active_state_nodes = set(active)
    # (the string form `"params": "<name>"` is covered with concrete names by
    #  guard_atom: a symbolic str in that position makes CrossHair's path tree
    #  explode inside GuardDefinition/_resolve_params - measured 785 paths
    #  unfinished against 18 for the dict form)
    gd = GuardDefinition({"type": "stateIn", "params": {"state": name}})
    got = it._is_guard_satisfied(gd, Event("E"))
    want = _state_in_ref(active, name)
    if got != want:
        _note(f"stateIn({name!r}) in {sorted(n.id for n in active)}: engine {got}, reference {want}")
    return verdict(got == want, nontrivial=want)


# ---------------------------------------------------------------------------
# cond alias + selection
# ---------------------------------------------------------------------------

_M2: Dict[str, Any] = {}


def _alias_machine(key: str) -> Any:
    m = _M2.get(key)
    if m is None:
        from xstate_statemachine import create_machine

        cfg = {
            "id": "m", "initial": "A",
            "states": {
                "A": {"on": {
                    "GO": {"target": "B", key: "p0", "actions": [{"type": "tr", "params": {"s": "GO"}}]},
                    "CH": {"actions": [{"type": "xstate.choose", "params": {"conditions": [
                        {key: "p1", "actions": [{"type": "tr", "params": {"s": "branch1"}}]},
                        {"actions": [{"type": "tr", "params": {"s": "fallback"}}]},
                    ]}}]},
                }},
                "B": {},
            },
        }
        logic = make_logic()
        logic.guards = _Guards()
        m = create_machine(cfg, logic=logic)
        env.pin_hashes(m)
        _M2[key] = m
    return m


def cond_alias(usecond: bool, a0: int, a1: int) -> bool:
    """
    pre: gate('cond_alias', usecond=usecond)
    post: _
    """
    o = Outcomes([a0, a1])
    OUT["o"] = o
    OUT["user_statein"] = False
    m = _alias_machine("cond" if usecond else "guard")
    from xstate_statemachine import SyncInterpreter
    from xstate_statemachine.exceptions import ImplementationMissingError

    it = SyncInterpreter(m)
    rec: List[Any] = []
    it.__dict__["_rec"] = rec
    it.start()
    ok = True
    v1 = o.of("p1")
    try:
        it.send("CH")
        fired = [r[1] for r in rec if r[0] == "tr"]
        want = ["branch1"] if v1 == 1 else ["fallback"]
        if v1 == 3:
            # a missing guard inside choose is contained like any built-in action failure
            want = fired if fired in ([], ["fallback"]) else ["<none>"]
        if fired != want:
            _note(f"choose with {'cond' if usecond else 'guard'}=p1 outcome {v1}: ran {fired}, expected {want}")
            ok = False
    except ImplementationMissingError:
        if v1 != 3:
            ok = False
    del rec[:]
    v0 = o.of("p0")
    try:
        it.send("GO")
        went = sorted(it.current_state_ids) == ["m.B"]
        if went != (v0 == 1):
            _note(f"transition with {'cond' if usecond else 'guard'}=p0 outcome {v0}: taken={went}")
            ok = False
        if v0 == 3:
            _note("missing guard did not raise ImplementationMissingError from send()")
            ok = False
    except ImplementationMissingError:
        if v0 != 3:
            _note("ImplementationMissingError although the guard is implemented")
            ok = False
    return verdict(ok)


def _sel_machine() -> Any:
    m = _M2.get("sel")
    if m is None:
        from xstate_statemachine import create_machine

        cfg = {
            "id": "m", "initial": "P",
            "states": {
                "P": {"initial": "C",
                      "on": {"E": {"target": "Z", "guard": "p2", "actions": [{"type": "tr", "params": {"s": "P:0"}}]}},
                      "states": {"C": {"on": {"E": [
                          {"target": "#m.X", "guard": "p0", "actions": [{"type": "tr", "params": {"s": "C:0"}}]},
                          {"target": "#m.Y", "guard": "p1", "actions": [{"type": "tr", "params": {"s": "C:1"}}]},
                      ]}}}},
                "X": {}, "Y": {}, "Z": {"on": {"BACK": "P"}},
            },
            "on": {"PING": {"actions": [{"type": "tr", "params": {"s": "ping"}}]}},
        }
        cfg["states"]["P"]["on"]["E"]["target"] = "#m.Z"
        logic = make_logic()
        logic.guards = _Guards()
        m = create_machine(cfg, logic=logic)
        env.pin_hashes(m)
        _M2["sel"] = m
    return m


def in_selection(eng: int, a0: int, a1: int, a2: int) -> bool:
    """
    pre: 0 <= eng <= 1
    pre: gate('in_selection', eng=eng)
    post: _
    """
    from xstate_statemachine import Interpreter, SyncInterpreter
    from xstate_statemachine.exceptions import ImplementationMissingError

    o = Outcomes([a0, a1, a2])
    OUT["o"] = o
    OUT["user_statein"] = False
    m = _sel_machine()
    rec: List[Any] = []
    raised: List[str] = []
    if eng == 0:
        it = SyncInterpreter(m)
        it.__dict__["_rec"] = rec
        it.start()
        try:
            it.send("E")
        except ImplementationMissingError:
            raised.append("missing")
        fired = [r[1] for r in rec if r[0] == "tr"]
        del rec[:]
        it.send("PING")
        alive = [r[1] for r in rec if r[0] == "tr"] == ["ping"] and it.status == "running"
    else:
        it = Interpreter(m)
        it.__dict__["_rec"] = rec
        box: Dict[str, Any] = {}

        async def go() -> None:
            await it.start()
            await it.send("E")
            await it._event_queue.join()
            box["fired"] = [r[1] for r in rec if r[0] == "tr"]
            del rec[:]
            await it.send("PING")
            await it._event_queue.join()
            box["alive"] = [r[1] for r in rec if r[0] == "tr"] == ["ping"] and it.status == "running"
            await it.stop()

        common.drive(go())
        fired = box["fired"]
        alive = box["alive"]
    # reference: lazy order C:0, C:1, then P:0
    order = [("C:0", "p0"), ("C:1", "p1"), ("P:0", "p2")]
    want: Any = []
    reached_missing = False
    for marker, g in order:
        v = o.of(g)
        if v == 3:
            reached_missing = True
            break
        if v == 1:
            want = [marker]
            break
    any_missing = any(o.of(g) == 3 for _m, g in order)
    ok = True
    if reached_missing:
        # must be reported: sync raises from send(); async logs and stays alive; nothing fires
        if eng == 0 and not raised:
            _note(f"missing guard reached but send() did not raise ImplementationMissingError; fired={fired}")
            ok = False
        if fired:
            _note(f"missing guard reached but a transition fired: {fired}")
            ok = False
    elif any_missing:
        # engine may evaluate the whole chain eagerly: either outcome is accepted
        if not (fired == want and not raised) and not (fired == [] and (raised or eng == 1)):
            _note(f"fired {fired} raised {raised}, lazy reference {want} (an unreached candidate is unimplemented)")
            ok = False
    else:
        if fired != want or raised:
            _note(f"fired {fired} raised {raised}, reference {want}; outcomes={o.cache}")
            ok = False
    if not alive:
        _note("interpreter did not process the next event normally")
        ok = False
    return verdict(ok)


def _param_machine() -> Any:
    m = _M2.get("param")
    if m is None:
        from xstate_statemachine import create_machine

        def at_least(ctx: Any, event: Any, params: Any) -> bool:
            return ctx["v"] >= params["min"]

        def tr(t: str) -> List[Any]:
            return [{"type": "tr", "params": {"s": t}}]

        cfg = {
            "id": "m", "type": "parallel", "context": {"v": 0},
            "states": {
                "R1": {"initial": "s", "states": {
                    "s": {"on": {"E": [
                        {"guard": {"type": "atLeast", "params": {"min": 100}}, "target": "high", "actions": tr("R1:high")},
                        {"guard": {"type": "atLeast", "params": {"min": 10}}, "target": "mid", "actions": tr("R1:mid")},
                        {"target": "low", "actions": tr("R1:low")},
                    ]}},
                    "high": {}, "mid": {}, "low": {}}},
                "R2": {"initial": "s", "states": {
                    "s": {"on": {"E": [
                        {"guard": {"type": "atLeast", "params": lambda a: {"min": 50}}, "target": "big", "actions": tr("R2:big")},
                        {"guard": {"type": "and", "children": [{"type": "atLeast", "params": {"min": 5}},
                                                               {"type": "not", "children": [{"type": "atLeast", "params": {"min": 7}}]}]},
                         "target": "six", "actions": tr("R2:six")},
                    ]}},
                    "big": {}, "six": {}}},
                # params that are FALSY but not None (0, [], a computed 0) must reach the predicate like any other value
                "R3": {"initial": "s", "states": {
                    "s": {"on": {"E": [
                        {"guard": {"type": "eqp", "params": 0}, "target": "zero", "actions": tr("R3:zero")},
                        {"guard": {"type": "geq", "params": lambda a: a["context"]["v"] - 10}, "target": "g", "actions": tr("R3:geq")},
                        {"guard": {"type": "empty", "params": []}, "target": "e", "actions": tr("R3:empty")},
                    ]}},
                    "zero": {}, "g": {}, "e": {}}},
            },
        }

        def eqp(ctx: Any, event: Any, params: Any) -> bool:
            return ctx["v"] == params

        def geq(ctx: Any, event: Any, params: Any) -> bool:
            return ctx["v"] >= params

        def empty(ctx: Any, event: Any, params: Any) -> bool:
            return len(params) == 0

        logic = make_logic(guards={"atLeast": at_least, "eqp": eqp, "geq": geq, "empty": empty})
        m = create_machine(cfg, logic=logic)
        env.pin_hashes(m)
        _M2["param"] = m
    return m


def param_selection(eng: int, v: int) -> bool:
    """
    pre: 0 <= eng <= 1
    pre: gate('param_selection', eng=eng, v=v)
    post: _
    """
    from xstate_statemachine import Interpreter, SyncInterpreter

    m = _param_machine()
    rec: List[Any] = []
    if eng == 0:
        it = SyncInterpreter(m)
        it.__dict__["_rec"] = rec
        it.start()
        it.context["v"] = v
        it.send("E")
    else:
        it = Interpreter(m)
        it.__dict__["_rec"] = rec

        async def go() -> None:
            await it.start()
            it.context["v"] = v
            await it.send("E")
            await it._event_queue.join()
            await it.stop()

        common.drive(go())
    fired = sorted(r[1] for r in rec if r[0] == "tr")
    want = ["R1:high" if v >= 100 else ("R1:mid" if v >= 10 else "R1:low")]
    if v >= 50:
        want.append("R2:big")
    elif 5 <= v < 7:
        want.append("R2:six")
    want.append("R3:zero" if v == 0 else "R3:geq")
    if fired != sorted(want):
        _note(f"v={v}: fired {fired}, parameterised-guard reference {sorted(want)}")
    return verdict(fired == sorted(want))


PROBES = {
    "param_selection": [{"v": 6}, {"v": 50}, {"v": 120}, {"eng": 1, "v": 50}, {"eng": 1, "v": 6}, {"v": 0}, {"v": 10}, {"eng": 1, "v": 10}],
    "state_in": [{"name": "a"}, {"name": "b"}, {"name": "2"}, {"name": "#m"}],
}

OBLIGATIONS = {"param_selection": param_selection, "guard_tree": guard_tree, "guard_atom": guard_atom, "state_in": state_in,
               "cond_alias": cond_alias, "in_selection": in_selection}


def items(tier: str, seed: int) -> List[Dict[str, Any]]:
    quick = tier == "quick"
    out: List[Dict[str, Any]] = []
    for t in range(7):
        out.append({"ob": "guard_tree", "params": {"T": t}, "timeout": 280 if quick else 1500, "label": f"guard_tree[template={t}]"})
    out.append({"ob": "guard_atom", "params": {}, "timeout": 120, "label": "guard_atom"})
    L = 4 if quick else 6
    for sid in (["CUR3", "CUR8", "CUR10"] if quick else ["CUR2", "CUR3", "CUR6", "CUR8", "CUR10", "CUR11"]):
        for c in ((0, 3, 7) if quick else (0, 1, 3, 5, 7, 11)):
            out.append({"ob": "state_in", "params": {"sid": sid, "spec": skeletons.CURATED[sid], "L": L, "cfg": c},
                        "timeout": 200 if quick else 1500, "path_timeout": 40, "label": f"state_in[{sid},cfg={c},L={L}]"})
    out.append({"ob": "cond_alias", "params": {}, "timeout": 120, "label": "cond_alias"})
    out.append({"ob": "in_selection", "params": {}, "timeout": 200, "label": "in_selection"})
    out.append({"ob": "param_selection", "params": {}, "timeout": 200, "label": "param_selection"})
    return out
