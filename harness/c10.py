"""C10 - completion: onDone exactly once; a top-level final state ends the machine.

  done_step   one event from an arbitrary stable configuration of the
              completion machine DM (parallel state with three regions, a
              history child, a nested compound with its own onDone, targetless
              parallel onDone so regions can complete, un-complete and
              re-complete): the onDone marker fires iff the reference doneness
              (model-free, recursive) of the state rose to true through the
              entry of a final state; done data = the final state's output.
  done_run    public run: start() + symbolic event sequence; same oracle
              cumulatively (all completion orders chosen by the solver).
  top_final   entering a final child of the root: status 'done' once, on_done
              hook once, output precedence (machine-level wins), later sends
              are ignored and run no user code.
"""
from __future__ import annotations

from typing import Any, Dict, List, Optional

from vf import env, model
from vf.kf import gate, verdict
from vf.logic import make_logic
from harness import common
from harness.common import Chooser, build_config, pick

PROPERTY = "C10"
P: Dict[str, Any] = {}
EXPLAIN: List[str] = []
EXPLANATION = (
    "C10 (completion): CrossHair executes send()/_enter_states/_check_and_fire_on_done/_is_state_done/_complete of "
    "both engines on a completion machine; the pre-configuration (or the event sequence from start()) is symbolic, the "
    "oracle recomputes doneness independently from the configuration."
)
NONTRIVIAL_RULE = "processed an event that entered or left a final state"
BOUNDS = {
    "same_key_parallel": "machine SK: three parallel states that share the local key 'checks' (two active at once in sibling regions, one entered later); event sequences of length N (item label) over {A1, A2, B1, B2, NEXT, NOP} from start(); both engines; after every event each state's onDone marker fired exactly when its doneness rose",
    "done_step": "machine DM (and DM2 with prefix-named regions); every stable legal configuration; one event of the 7-letter alphabet; both engines",
    "done_run": "machine DM; event sequences of length <= N (item label) over the alphabet from start(); both engines",
    "nested_final": "a final state nested in a compound (1 or 2 levels) or in every region of a parallel state, no ancestor declaring onDone: entering it does not complete the machine (status running, no output, on_done hook silent), the next event is handled, the top-level final state then completes it once; both engines",
    "double_final": "machine DF (a parallel state whose region leaf and the root both handle one event, each transition entering a different top-level final state); one event / one batch / two sends; both engines: status done once, on_done hook once, output not overwritten",
    "top_final": "4 machine variants (machine-level output absent / literal / falsy literal / callable) x final-state output; sequences of <= 3 events after completion",
}
ASSUMPTIONS = [
    "done_step pre-states are constructed directly; configurations in which a final state with a pending done event is active (transient inside a macrostep) are excluded",
    "reference doneness: a compound state is done iff its active child is a final state (or, recursively, a done state - the engine's reading); a parallel state iff every non-history region is done",
]
WALL_BUDGET = {"quick": 600.0, "thorough": 3000.0}

ALPHA = ["F1", "F2", "F3", "U1", "U2", "U3", "NOP"]
_M: Dict[str, Any] = {}


def _note(m: str) -> None:
    EXPLAIN.append(m)


def _tr(s: str) -> List[Any]:
    return [{"type": "tr", "params": {"s": s}}]


def dm_config(prefixy: bool = False) -> Dict[str, Any]:
    r1, r2, r3 = ("R", "R2", "R21") if prefixy else ("R1", "R2", "R3")
    return {
        "id": "m", "initial": "P",
        "on": {"GO": "#m.Done"},
        "states": {
            "P": {
                "type": "parallel",
                "onDone": {"actions": _tr("P.done")},
                "states": {
                    r1: {"initial": "a", "on": {"U1": "a"},
                         "states": {"a": {"on": {"F1": "f1"}}, "f1": {"type": "final", "output": {"r": 1}}}},
                    r2: {"initial": "c", "on": {"U2": "c"},
                         "states": {"c": {"on": {"F2": "g"}}, "g": {"type": "final"}}},
                    r3: {"initial": "W", "on": {"U3": "W"},
                         "states": {
                             # W also invokes a service WITHOUT an explicit id (its id defaults to W's own id): the
                             # service's done.invoke.<W> must never be mistaken for W's own completion
                             "W": {"initial": "x", "onDone": {"target": "f3", "actions": _tr("W.done")}, "invoke": {"src": "svc"},
                                   "states": {"x": {"on": {"F3": "wf"}}, "wf": {"type": "final", "output": "w-out"}}},
                             "f3": {"type": "final"}}},
                    "hs": {"type": "history"},
                },
            },
            "Done": {"type": "final", "output": "d-out"},
        },
    }


def _machine(name: str) -> Any:
    m = _M.get(name)
    if m is None:
        from xstate_statemachine import create_machine

        env.install()
        if name == "DM":
            cfg = dm_config(False)
        elif name == "DM2":
            cfg = dm_config(True)
        elif name == "SK":
            cfg = sk_config()
        else:
            cfg = top_config(int(name[3:]))
        m = create_machine(common.mark(cfg), logic=make_logic(services={"svc": lambda i, c, e: {"answer": 42}}))
        env.pin_hashes(m)
        _M[name] = m
    return m


def set_params(p: Dict[str, Any]) -> None:
    global P
    P = p
    _machine(p.get("machine", "DM"))


def done_ref(active: List[Any], state: Any) -> bool:
    """Independent recursive doneness."""
    if state.type == "final":
        return True
    if state.type == "compound":
        kids = [a for a in active if a.parent is state]
        return len(kids) == 1 and done_ref(active, kids[0])
    if state.type == "parallel":
        for r in state.states.values():
            if r.type == "history":
                continue
            if not any(a is r for a in active) or not done_ref(active, r):
                return False
        return True
    return False


def _by_id(m: Any) -> Dict[str, Any]:
    return {n.id: n for n in model.doc_order(m)}


def _run_events(m: Any, eng: int, pre_active: Optional[List[Any]], evs: List[str]) -> Any:
    """Returns (interp, per-event observations [(active ids, log slice)])."""
    from xstate_statemachine import Interpreter, SyncInterpreter

    rec: List[Any] = []
    obs: List[Any] = []
    if eng == 0:
        it = SyncInterpreter(m)
        it.__dict__["_rec"] = rec
        if pre_active is None:
            it.start()
        else:
            it.status = "running"
            it._active_state_nodes = set(pre_active)
        obs.append((sorted(n.id for n in it._active_state_nodes), list(rec)))
        for e in evs:
            del rec[:]
            it.send(e)
            obs.append((sorted(n.id for n in it._active_state_nodes), list(rec)))
        return it, obs
    it = Interpreter(m)
    it.__dict__["_rec"] = rec

    async def go() -> None:
        import asyncio

        if pre_active is None:
            await it.start()
        else:
            it.status = "running"
            it._active_state_nodes = set(pre_active)
            it._event_loop_task = asyncio.ensure_future(it._run_event_loop())
        obs.append((sorted(n.id for n in it._active_state_nodes), list(rec)))
        for e in evs:
            del rec[:]
            await it.send(e)
            await it._event_queue.join()
            obs.append((sorted(n.id for n in it._active_state_nodes), list(rec)))
        await it.stop()

    common.drive(go())
    return it, obs


def _check_step(m: Any, before_ids: List[str], after_ids: List[str], log: List[Any], tag: str) -> Optional[str]:
    by = _by_id(m)
    before = [by[i] for i in before_ids]
    after = [by[i] for i in after_ids]
    Pn = by["m.P"]
    W = [n for n in by.values() if n.key == "W"][0]
    fired = [r[1] for r in log if r[0] == "tr"]
    entered = [r[1] for r in log if r[0] == "en"]
    entered_final = [e for e in entered if by[e].type == "final"]
    # W.onDone: exactly once iff its final child was entered
    want_w = 1 if any(by[e].parent is W for e in entered_final) else 0
    if fired.count("W.done") != want_w:
        return f"{tag}: W.onDone fired {fired.count('W.done')}x, expected {want_w} (final children entered: {entered_final})"
    for r in log:
        if r[0] == "tr" and r[1] == "W.done":
            data = getattr(r[2], "data", None)
            if data != "w-out":
                return f"{tag}: done event of W carries {data!r}, not the final state's output 'w-out'"
    # P.onDone: once iff P's doneness rose through the entry of a final state
    # (one event of this alphabet can complete at most one region and cannot both
    #  un-complete and re-complete, so "rose" is simply: not done before, done after)
    was = any(b is Pn for b in before) and done_ref(before, Pn)
    now = any(a is Pn for a in after) and done_ref(after, Pn)
    want_p = 1 if (now and not was) else 0
    if fired.count("P.done") != want_p:
        return (f"{tag}: P.onDone fired {fired.count('P.done')}x, expected {want_p}; before={before_ids} after={after_ids} "
                f"final states entered={entered_final}")
    if fired.count("P.done") and not done_ref(after, Pn):
        return f"{tag}: P.onDone fired while a region is not final: {after_ids}"
    return None


def _left_final(before_ids: List[str], log: List[Any], by: Dict[str, Any]) -> bool:
    """A final state was exited during this step (a region un-completed)."""
    return any(r[0] == "ex" and by[r[1]].type == "final" for r in log)


def done_step(eng: int, c0: int, c1: int, c2: int, c3: int, c4: int, c5: int, evsel: int) -> bool:
    """
    pre: 0 <= eng <= 1
    pre: gate('done_step', eng=eng)
    post: _
    """
    m = _machine(P.get("machine", "DM"))
    active = build_config(m, Chooser([c0, c1, c2, c3, c4, c5]))
    if any(a.key == "wf" for a in active):
        return verdict(True, nontrivial=False)  # transient inside a macrostep
    ev = ALPHA[pick(evsel, len(ALPHA))]
    it, obs = _run_events(m, eng, active, [ev])
    why = _check_step(m, obs[0][0], obs[1][0], obs[1][1], f"{'sync' if eng == 0 else 'async'} {ev} from {obs[0][0]}")
    if why:
        _note(why)
    return verdict(why is None, nontrivial=any(r[0] in ("en", "ex") for r in obs[1][1]))


def done_run(eng: int, e0: int, e1: int, e2: int, e3: int) -> bool:
    """
    pre: 0 <= eng <= 1
    pre: gate('done_run', eng=eng)
    post: _
    """
    m = _machine("DM")
    n = P["N"]
    sel = [e0, e1, e2, e3][:n]
    evs = [ALPHA[pick(s, 6)] for s in sel]
    it, obs = _run_events(m, eng, None, evs)
    ok = True
    for i, e in enumerate(evs):
        why = _check_step(m, obs[i][0], obs[i + 1][0], obs[i + 1][1], f"{'sync' if eng == 0 else 'async'} run {evs[:i + 1]}")
        if why:
            _note(why)
            ok = False
            break
    return verdict(ok)


# ---------------------------------------------------------------------------
# top-level completion
# ---------------------------------------------------------------------------

def top_config(variant: int) -> Dict[str, Any]:
    cfg: Dict[str, Any] = {
        "id": "m", "initial": "A", "context": {"n": 0},
        "states": {
            "A": {"on": {"GO": "Done", "GO2": "Done2", "PING": {"actions": _tr("ping")}}},
            "Done": {"type": "final", "output": "state-out", "entry": _tr("enter.Done"),
                     "on": {"PING": {"actions": _tr("ping.after")}}},
            "Done2": {"type": "final"},
        },
        "on": {"PING": {"actions": _tr("root.ping")}},
    }
    if variant == 1:
        cfg["output"] = "machine-out"
    elif variant == 2:
        cfg["output"] = 0
    elif variant == 3:
        cfg["output"] = lambda a: {"n": a["context"]["n"] + 1}
    return cfg


class _DoneHook:
    def __init__(self) -> None:
        self.done: List[Any] = []

    def on_done(self, interp: Any, output: Any) -> None:
        self.done.append(output)

    def on_transition(self, *a: Any) -> None:
        return None

    def on_event_received(self, *a: Any) -> None:
        return None


def double_final(eng: int, how: int) -> bool:
    """
    pre: 0 <= eng <= 1
    pre: gate('double_final', eng=eng, how=how)
    post: _
    """
    from xstate_statemachine import Interpreter, SyncInterpreter, create_machine

    h = pick(how, 3)
    m = _M.get("DF")
    if m is None:
        env.install()
        cfg = {
            "id": "m", "initial": "P",
            # the root handles FIN too: it is selected for region r2's leaf, which has no handler of its own
            "on": {"FIN": {"target": ".end2"}, "FIN2": {"target": ".end2"}},
            "states": {
                "P": {"type": "parallel", "states": {
                    "r1": {"initial": "a", "states": {"a": {"on": {"FIN": "#m.end1", "FIN1": "#m.end1"}}}},
                    "r2": {"initial": "b", "states": {"b": {}}},
                }},
                "end1": {"type": "final", "output": {"winner": "end1"}},
                "end2": {"type": "final", "output": {"winner": "end2"}},
            },
        }
        m = create_machine(common.mark(cfg), logic=make_logic())
        env.pin_hashes(m)
        _M["DF"] = m
    hook = _DoneHook()
    res: Dict[str, Any] = {}
    # how 0: ONE event selects two transitions that each enter a top-level final state
    # how 1: a batch - the first event completes the machine, a later one would enter another final state
    # how 2: the same as two separate sends (the second must be ignored altogether)
    if eng == 0:
        it = SyncInterpreter(m)
        it.use(hook)
        it.start()
        if h == 0:
            it.send("FIN")
        elif h == 1:
            it.send_events(["FIN1", "FIN2"])
        else:
            it.send("FIN1")
            it.send("FIN2")
        res = {"status": it.status, "output": it.output}
        it.stop()
    else:
        it2 = Interpreter(m)
        it2.use(hook)

        async def go() -> None:
            await it2.start()
            if h == 0:
                await it2.send("FIN")
            else:
                await it2.send("FIN1")
                if h == 2:
                    await it2._event_queue.join()
                await it2.send("FIN2")
            import asyncio

            for _ in range(20):
                await asyncio.sleep(0)
            res.update({"status": it2.status, "output": it2.output})
            await it2.stop()

        common.drive(go())
    why = None
    if res["status"] != "done":
        why = f"status {res['status']}"
    elif len(hook.done) != 1:
        why = f"on_done hook called {len(hook.done)} time(s) with {hook.done}; the machine completes exactly once"
    elif res["output"] != hook.done[0]:
        why = f"output {res['output']!r} differs from the output recorded at completion {hook.done[0]!r}"
    elif h != 0 and res["output"] != {"winner": "end1"}:
        why = f"output {res['output']!r}: the machine completed in end1"
    if why:
        _note(f"{'sync' if eng == 0 else 'async'} how={h}: {why}")
    return verdict(why is None)


def nested_final(eng: int, shape: int) -> bool:
    """
    pre: 0 <= eng <= 1
    pre: gate('nested_final', eng=eng, shape=shape)
    post: _
    """
    from xstate_statemachine import Interpreter, SyncInterpreter, create_machine

    eng = pick(eng, 2)
    sh = pick(shape, 3)     # the nested final state sits in a compound / two levels deep / in every region of a parallel state
    key = f"NF{sh}"
    m = _M.get(key)
    if m is None:
        env.install()
        if sh == 0:
            work: Dict[str, Any] = {"initial": "busy", "states": {"busy": {"on": {"FIN": "finished"}}, "finished": {"type": "final", "output": "nested-out"}}}
        elif sh == 1:
            work = {"initial": "inner", "states": {"inner": {"initial": "busy", "states": {"busy": {"on": {"FIN": "finished"}},
                                                                                             "finished": {"type": "final", "output": "nested-out"}}}}}
        else:
            work = {"type": "parallel", "states": {
                "r1": {"initial": "busy", "states": {"busy": {"on": {"FIN": "finished"}}, "finished": {"type": "final"}}},
                "r2": {"initial": "busy", "states": {"busy": {"on": {"FIN": "finished"}}, "finished": {"type": "final"}}}}}
        work["on"] = {"NEXT": "#n.end", "PING": {"actions": _tr("ping")}}
        cfg = {"id": "n", "initial": "work", "states": {"work": work, "end": {"type": "final", "output": "top-out"}}}
        m = create_machine(common.mark(cfg), logic=make_logic())
        env.pin_hashes(m)
        _M[key] = m
    hook = _DoneHook()
    rec: List[Any] = []
    obs: Dict[str, Any] = {}
    if eng == 0:
        it = SyncInterpreter(m)
        it.__dict__["_rec"] = rec
        it.use(hook)
        it.start()
        it.send("FIN")
        obs["mid"] = (it.status, it.output, len(hook.done))
        del rec[:]
        it.send("PING")
        obs["ping"] = [s_ for k_, s_, _e in rec if k_ == "tr"]
        it.send("NEXT")
        obs["end"] = (it.status, it.output, list(hook.done))
        it.stop()
    else:
        it2 = Interpreter(m)
        it2.__dict__["_rec"] = rec
        it2.use(hook)

        async def go() -> None:
            await it2.start()
            await it2.send("FIN")
            await it2._event_queue.join()
            obs["mid"] = (it2.status, it2.output, len(hook.done))
            del rec[:]
            await it2.send("PING")
            await it2._event_queue.join()
            obs["ping"] = [s_ for k_, s_, _e in rec if k_ == "tr"]
            await it2.send("NEXT")
            import asyncio

            for _ in range(10):
                await asyncio.sleep(0)
            obs["end"] = (it2.status, it2.output, list(hook.done))
            await it2.stop()

        common.drive(go())
    why = None
    if obs["mid"] != ("running", None, 0):
        why = f"after entering a NESTED final state: status/output/on_done calls = {obs['mid']}; only a final child of the root completes the machine"
    elif obs["ping"] != ["ping"]:
        why = f"the event after the nested final state was not handled: {obs['ping']}"
    elif obs["end"] != ("done", "top-out", ["top-out"]):
        why = f"after the top-level final state: status/output/on_done = {obs['end']}"
    if why:
        _note(f"{'sync' if eng == 0 else 'async'} shape {sh}: {why}")
    return verdict(why is None)


def top_final(eng: int, variant: int, which: bool, k: int) -> bool:
    """
    pre: 0 <= eng <= 1
    pre: gate('top_final', eng=eng)
    post: _
    """
    from xstate_statemachine import Interpreter, SyncInterpreter

    v = pick(variant, 4)
    m = _machine(f"TOP{v}")
    go_ev = "GO" if which else "GO2"
    extra = pick(k, 3)
    hook = _DoneHook()
    rec: List[Any] = []
    after: Dict[str, Any] = {}

    def expected_output() -> Any:
        if v == 1:
            return "machine-out"
        if v == 2:
            return 0
        if v == 3:
            return {"n": 1}
        return "state-out" if which else None

    if eng == 0:
        it = SyncInterpreter(m)
        it.__dict__["_rec"] = rec
        it.use(hook)
        it.start()
        it.send(go_ev)
        after["status"] = it.status
        after["output"] = it.output
        del rec[:]
        ctx = dict(it.context)
        for _ in range(extra):
            it.send("PING")
            it.send(go_ev)
        after["rec"] = list(rec)
        after["ctx_same"] = dict(it.context) == ctx
        after["queue"] = len(it._event_queue)
        it.stop()
        after["status2"] = it.status
    else:
        it = Interpreter(m)
        it.__dict__["_rec"] = rec
        it.use(hook)

        async def go() -> None:
            await it.start()
            await it.send(go_ev)
            await it._event_queue.join()
            after["status"] = it.status
            after["output"] = it.output
            del rec[:]
            ctx = dict(it.context)
            for _ in range(extra):
                await it.send("PING")
                await it.send(go_ev)
            import asyncio

            await asyncio.sleep(0)
            after["rec"] = list(rec)
            after["ctx_same"] = dict(it.context) == ctx
            after["queue"] = it._event_queue.qsize()
            await it.stop()
            after["status2"] = it.status

        common.drive(go())
    ok = True
    if after["status"] != "done":
        _note(f"status after entering a top-level final state: {after['status']}")
        ok = False
    elif after["output"] != expected_output():
        _note(f"variant {v} final={'Done' if which else 'Done2'}: output {after['output']!r}, expected {expected_output()!r}")
        ok = False
    elif len(hook.done) != 1 or hook.done[0] != expected_output():
        _note(f"on_done hook calls: {hook.done!r}")
        ok = False
    elif after["rec"] or not after["ctx_same"] or after["queue"] != 0:
        _note(f"events sent after completion had an effect: actions {[(r[0], r[1]) for r in after['rec']]}, queue {after['queue']}")
        ok = False
    elif after["status2"] != "stopped":
        _note(f"stop() after completion left status {after['status2']}")
        ok = False
    return verdict(ok)


# ---------------------------------------------------------------------------
# several parallel states with the SAME local key (order.checks / refund.checks)
# ---------------------------------------------------------------------------

SK_EVENTS = ["A1", "A2", "B1", "B2", "NEXT", "NOP"]


def sk_config() -> Dict[str, Any]:
    def checks(owner: str, e1: str, e2: str) -> Dict[str, Any]:
        return {"type": "parallel", "onDone": {"actions": _tr(f"{owner}.checks.done")},
                "states": {"u": {"initial": "a", "states": {"a": {"on": {e1: "fa"}}, "fa": {"type": "final"}}},
                           "v": {"initial": "b", "states": {"b": {"on": {e2: "fb"}}, "fb": {"type": "final"}}}}}

    return {
        "id": "m", "initial": "S",
        "states": {
            # two parallel states called 'checks' active at the same time in sibling regions ...
            "S": {"type": "parallel", "on": {"NEXT": "T"},
                  "states": {"alpha": {"initial": "checks", "states": {"checks": checks("alpha", "A1", "A2")}},
                             "beta": {"initial": "checks", "states": {"checks": checks("beta", "B1", "B2")}}}},
            # ... and a third one of the same name that becomes active later
            "T": {"initial": "checks", "states": {"checks": checks("T", "A1", "B2")}},
        },
    }


def same_key_parallel(eng: int, e0: int, e1: int, e2: int, e3: int, e4: int) -> bool:
    """
    pre: 0 <= eng <= 1
    pre: gate('same_key_parallel', eng=eng)
    post: _
    """
    m = _machine("SK")
    by = _by_id(m)
    evs = [SK_EVENTS[pick(s, len(SK_EVENTS))] for s in [e0, e1, e2, e3, e4][: P.get("N", 4)]]
    it, obs = _run_events(m, eng, None, evs)
    owners = [n for n in by.values() if n.key == "checks"]
    why = None
    for i, e in enumerate(evs):
        before = [by[x] for x in obs[i][0]]
        after = [by[x] for x in obs[i + 1][0]]
        fired = [r[1] for r in obs[i + 1][1] if r[0] == "tr"]
        for c in owners:
            tag = c.id[2:].replace("S.", "") + ".done"          # m.S.alpha.checks -> alpha.checks.done ; m.T.checks -> T.checks.done
            was = any(b is c for b in before) and done_ref(before, c)
            now = any(a is c for a in after) and done_ref(after, c)
            want = 1 if (now and not was) else 0
            if fired.count(tag) != want:
                why = (f"{'sync' if eng == 0 else 'async'} run {evs[:i + 1]}: onDone of {c.id} fired {fired.count(tag)}x, expected {want} "
                       f"(configuration {obs[i + 1][0]})")
                break
        if why:
            break
    if why:
        _note(why)
    return verdict(why is None)


OBLIGATIONS = {"same_key_parallel": same_key_parallel, "done_step": done_step, "done_run": done_run, "top_final": top_final, "double_final": double_final, "nested_final": nested_final}
PROBES = {"done_step": [{"evsel": 0}, {"evsel": 2}, {"c0": 1, "c1": 1, "evsel": 2}],
          "top_final": [{"variant": 2, "which": True}, {"variant": 1, "which": True, "k": 1}]}


def items(tier: str, seed: int) -> List[Dict[str, Any]]:
    quick = tier == "quick"
    out: List[Dict[str, Any]] = []
    for mname in ("DM", "DM2"):
        out.append({"ob": "done_step", "params": {"machine": mname}, "timeout": 240, "label": f"done_step[{mname}]"})
    for n in ([2, 3] if quick else [3, 4]):
        out.append({"ob": "done_run", "params": {"machine": "DM", "N": n}, "timeout": 280 if quick else 2400, "label": f"done_run[N={n}]"})
    out.append({"ob": "same_key_parallel", "params": {"machine": "SK", "N": 4 if quick else 5}, "timeout": 280 if quick else 1500,
                "label": f"same_key_parallel[N={4 if quick else 5}]"})
    out.append({"ob": "top_final", "params": {"machine": "TOP0"}, "timeout": 200, "label": "top_final"})
    out.append({"ob": "double_final", "params": {"machine": "TOP0"}, "timeout": 200, "label": "double_final"})
    out.append({"ob": "nested_final", "params": {"machine": "TOP0"}, "timeout": 200, "label": "nested_final"})
    return out
