"""C15 - actor messaging and supervision are exact.

  actor_seq  a symbolic sequence of operations on the parent machine PM
        SPA   spawn child  id 'a', systemId 'sysA'
        SPB   spawn child  id 'b'
        SPK   spawn child  with a generated id (service key 'kid')
        SPN   spawn child  id 'n' NON-blocking (sync: polling runner thread)
        SEND  sendTo(<address form>, MSG#n)     address form symbolic:
              full actor id | explicit id | systemId | service key | unknown |
              callable resolving a systemId | explicit id 'b' | explicit id 'n'
        DSEND delayed sendTo('sysA', MSG#n, 20 ms, id 'd1')
        DSND2 delayed sendTo('b',    MSG#n, 20 ms, id 'd2')
        CANC  cancel('d1')
        STPA  stopChild('a')
        FWD   forwardTo('sysA')  (the triggering event itself)
        PING  sendTo('sysA', PING): the child answers with sendParent(PONG)
        LATR  sendTo('sysA', LATER): the child schedules sendParent(LATE, 20 ms) with NO send id
        ESC   sendTo('sysA', ESC): the child escalates an error to the parent
        GRND  sendTo('sysA', SPG): the child spawns a grandchild (id g1, systemId sysG) with a heartbeat
        GSND  sendTo('sysG', GP#n): the grandchild answers its parent with sendTo('sysA', GACK#n)
        KFIN  sendTo('n', FIN): child 'n' reaches its top-level final state
        AFIN  sendTo('sysA', FIN): child 'a' reaches its final state (while it may still own a running grandchild)
        ADV   30 ms of virtual time
        STOP  parent.stop()
      Oracle (reference registry written from the docstring of
      _resolve_actor_target): one started child per spawn, registered under
      its id and systemId; every event delivered exactly once to exactly the
      addressed actor in sending order, or to nobody when the address does not
      resolve or is ambiguous; cancel(id) removes that pending send only;
      after stopChild / stop() the child and its descendants are stopped,
      absent from the children map and the system registry, and neither
      receive nor emit anything.
"""
from __future__ import annotations

from typing import Any, Dict, List, Optional, Tuple

from vf import env, vloop, vthread
from vf.kf import gate, verdict
from vf.logic import make_logic
from harness.common import pick

PROPERTY = "C15"
P: Dict[str, Any] = {}
EXPLAIN: List[str] = []
EXPLANATION = (
    "C15 (actors): CrossHair executes the spawn / sendTo / sendParent / forwardTo / escalate / stopChild / cancel built-ins, "
    "_resolve_actor_target, _deliver, _register_in_system and stop() of both engines on a parent machine with child "
    "and grandchild actors under a virtual clock; the operation sequence and the addressing form of each send are symbolic."
)
NONTRIVIAL_RULE = "the sequence contains at least one send-like operation"
BOUNDS = {
    "actor_seq": "parent machine PM; operation sequences of length N (item label; prefix fixed per item) over 19 operations; 8 addressing forms; tree depth <= 2 (grandchild), fan-out <= 4; both engines (sync: blocking spawns + one non-blocking spawn whose polling runner is a baton-passing coroutine, delayed sends on virtual threads)",
}
ASSUMPTIONS = [
    "virtual time as in C08; the sync engine's non-blocking runner thread (child.start(); while running: time.sleep(0.01)) runs as a coroutine on a real OS thread with baton passing (exactly one of main/poller runs at a time, time.sleep yields to the virtual scheduler): pre-emptive interleavings are outside",
    "reference resolution order taken from the docstring/comments of _resolve_actor_target: systemId, exact actor id, unique id-segment match (ambiguous -> dropped), originating service key, 'parent'",
    "under-specified cases are accepted either way: the service-key fallback with several live explicit-id children of that service may deliver to any ONE of them or drop; a child that has reached its own final state may or may not still be registered/receive",
]
WALL_BUDGET = {"quick": 900.0, "thorough": 3300.0}

OPS = ["SPA", "SPB", "SPK", "SPN", "SEND", "DSEND", "DSND2", "CANC", "STPA", "FWD", "PING", "LATR", "ESC", "GRND", "KFIN", "ADV", "STOP", "GSND", "AFIN"]
FORMS = ["m:a", "a", "sysA", "kid", "nosuch", "<callable>", "b", "n"]
SENDLIKE = ("SEND", "DSEND", "DSND2", "FWD", "PING", "LATR", "ESC", "GSND")
CTL: Dict[str, Any] = {}
_M: Dict[str, Any] = {}


def _note(m: str) -> None:
    EXPLAIN.append(m)


def _kid_msg(i: Any, c: Any, e: Any, a: Any) -> None:
    CTL["recv"].append((i.id, e.type, e.payload.get("n")))


def _kid_beat(i: Any, c: Any, e: Any, a: Any) -> None:
    CTL["beats"].append((i.id, CTL["clock"]()))


def _pong(i: Any, c: Any, e: Any, a: Any) -> None:
    CTL["pongs"].append(e.type)


def _machine(eng: int) -> Any:
    m = _M.get(eng)
    if m is None:
        from xstate_statemachine import create_machine
        from xstate_statemachine import actions as A

        env.install()
        gkid = create_machine({
            "id": "g", "initial": "beat",
            "states": {"beat": {"after": {"10": {"target": "beat", "reenter": True, "actions": ["beat"]}},
                                "on": {"GP": {"actions": [{"type": "xstate.sendTo", "params": lambda a: {"to": "sysA", "event": {"type": "GACK", "n": a["event"].payload["n"]}}}]}}}},
        }, logic=make_logic(actions={"beat": _kid_beat}))
        env.pin_hashes(gkid)
        gspawn = {"type": "spawn_blocking_gkid", "params": {"id": "g1", "systemId": "sysG"}} if eng == 0 else A.spawn_child("gkid", actor_id="g1", system_id="sysG")
        kid = create_machine({
            "id": "kid", "initial": "idle",
            "states": {"idle": {"on": {
                "MSG": {"actions": ["msg"]}, "FWD": {"actions": ["msg"]}, "GACK": {"actions": ["msg"]},
                "PING": {"actions": [A.send_parent("PONG")]},
                "LATER": {"actions": [A.send_parent("LATE", delay=20)]},
                "ESC": {"actions": [A.escalate("boom")]},
                "SPG": {"actions": [gspawn]},
                "FIN": "fin",
            }}, "fin": {"type": "final"}},
        }, logic=make_logic(actions={"msg": _kid_msg}, services={"gkid": gkid}))
        env.pin_hashes(kid)

        def sp(idv: Optional[str], sysid: Optional[str], blocking: bool = True) -> Any:
            params = {"id": idv, "systemId": sysid}
            if eng == 0:
                return {"type": "spawn_blocking_kid" if blocking else "spawn_kid", "params": {k: v for k, v in params.items() if v}}
            return A.spawn_child("kid", actor_id=idv, system_id=sysid)

        def to(a: Dict[str, Any]) -> Any:
            f = CTL["form"]
            return (lambda _x: "sysA") if f == "<callable>" else f

        cfg = {
            "id": "m", "initial": "on",
            "states": {"on": {"on": {
                "SPA": {"actions": [sp("a", "sysA")]},
                "SPB": {"actions": [sp("b", None)]},
                "SPK": {"actions": [sp(None, None)]},
                "SPN": {"actions": [sp("n", None, blocking=False)]},
                "SEND": {"actions": [{"type": "xstate.sendTo", "params": lambda a: {"to": to(a), "event": {"type": "MSG", "n": a["event"].payload["n"]}}}]},
                "DSEND": {"actions": [{"type": "xstate.sendTo", "params": lambda a: {"to": "sysA", "event": {"type": "MSG", "n": a["event"].payload["n"]}, "delay": 20, "id": "d1"}}]},
                "DSND2": {"actions": [{"type": "xstate.sendTo", "params": lambda a: {"to": "b", "event": {"type": "MSG", "n": a["event"].payload["n"]}, "delay": 20, "id": "d2"}}]},
                "CANC": {"actions": [A.cancel("d1")]},
                "STPA": {"actions": [A.stop_child("a")]},
                "FWD": {"actions": [A.forward_to("sysA")]},
                "PING": {"actions": [A.send_to("sysA", "PING")]},
                "LATR": {"actions": [A.send_to("sysA", "LATER")]},
                "ESC": {"actions": [A.send_to("sysA", "ESC")]},
                "GRND": {"actions": [A.send_to("sysA", "SPG")]},
                "KFIN": {"actions": [A.send_to("n", "FIN")]},
                "AFIN": {"actions": [A.send_to("sysA", "FIN")]},
                "GSND": {"actions": [{"type": "xstate.sendTo", "params": lambda a: {"to": "sysG", "event": {"type": "GP", "n": a["event"].payload["n"]}}}]},
                "PONG": {"actions": ["pong"]},
                "LATE": {"actions": ["pong"]},
                "xstate.error.actor.m:a": {"actions": ["pong"]},
            }}},
        }
        m = create_machine(cfg, logic=make_logic(actions={"pong": _pong}, services={"kid": kid}))
        env.pin_hashes(m)
        _M[eng] = m
    return m


def set_params(p: Dict[str, Any]) -> None:
    global P
    P = p
    vthread.install()
    _machine(0)
    _machine(1)


class Ref:
    """Reference registry + delivery model."""

    def __init__(self) -> None:
        self.slots: List[Dict[str, Any]] = []   # registration order (an id that is re-used keeps its slot)
        self.system: Dict[str, Dict[str, Any]] = {}
        # per message n: (n, type, [acceptable receiver keys], optional)
        self.want: List[Tuple[Any, str, List[str], bool]] = []
        self.pending: Dict[str, Tuple[float, Dict[str, Any], Any]] = {}  # send id -> (due, actor, n)
        self.late: List[Tuple[float, Dict[str, Any]]] = []               # id-less delayed sendParent of a child
        self.parent_got: List[str] = []
        self.auto = 0

    def live(self) -> List[Dict[str, Any]]:
        return [a for a in self.slots if a["alive"]]

    def spawn(self, idv: Optional[str], sysid: Optional[str]) -> None:
        if idv is None:
            self.auto += 1
            key = f"auto{self.auto}"
        else:
            key = idv
        rec = {"key": key, "sys": sysid, "alive": True, "auto": idv is None, "fin": False, "grand": False}
        for i, a in enumerate(self.slots):
            if a["key"] == key:
                a["alive"] = False     # replaced: the previous holder of the id is stopped
                if a.get("grand"):
                    self.system.pop("sysG", None)
                self.slots[i] = rec
                break
        else:
            self.slots.append(rec)
        if sysid:
            self.system[sysid] = rec

    def kill(self, a: Dict[str, Any]) -> None:
        a["alive"] = False
        if a.get("grand"):
            self.system.pop("sysG", None)    # descendants leave the registry with their parent
        for s, x in list(self.system.items()):
            if x is a:
                del self.system[s]
        self.slots = [x for x in self.slots if x is not a]

    def resolve(self, form: str) -> Tuple[List[Dict[str, Any]], bool]:
        """(acceptable targets, optional?) - [] means 'must be dropped'."""
        if form == "<callable>":
            form = "sysA"
        if form in self.system:
            return [self.system[form]], False
        live = self.live()
        if form.startswith("m:"):
            return [a for a in live if not a["auto"] and "m:" + a["key"] == form], False
        seg = [a for a in live if (not a["auto"] and a["key"] == form) or (a["auto"] and form == "kid")]
        if len(seg) == 1:
            return seg, False
        if len(seg) > 1:
            return [], False
        if form == "kid":
            cands = [a for a in live]
            return cands, len(cands) > 1
        return [], False


def _key_of(actor_id: str) -> str:
    parts = actor_id.split(":")
    return parts[1] if len(parts) == 2 else "auto"


def actor_seq(o1: int, o2: int, o3: int, o4: int, f1: int, f2: int) -> bool:
    """
    pre: gate('actor_seq', o1=o1, o2=o2, o3=o3, o4=o4)
    post: _
    """
    eng = P["eng"]
    n = P["N"]
    prefix = list(P["prefix"])
    ops = prefix + [OPS[pick(o, len(OPS))] for o in [o1, o2, o3, o4][: max(0, n - len(prefix))]]
    forms = [f1, f2]
    why = run_ops(eng, ops, forms)
    if why:
        _note(f"{'sync' if eng == 0 else 'async'} ops={ops} forms={[FORMS[pick(f, len(FORMS))] for f in forms]}: {why}")
    return verdict(why is None, nontrivial=any(o in SENDLIKE for o in ops))


def run_ops(eng: int, ops: List[str], forms: List[Any]) -> Optional[str]:
    CTL.update({"recv": [], "beats": [], "pongs": [], "form": "sysA"})
    return _run(eng, ops, forms)


def _run(eng: int, ops: List[str], forms: List[Any]) -> Optional[str]:
    from xstate_statemachine import Interpreter, SyncInterpreter

    m = _machine(eng)
    ref = Ref()
    state: Dict[str, Any] = {"seq": 0, "fi": 0, "now": 0.0, "stopped": False, "everyone": []}

    def next_form() -> str:
        f = FORMS[pick(forms[state["fi"] % len(forms)], len(FORMS))]
        state["fi"] += 1
        return f

    def want_now(typ: str, nn: Any, cands: List[Dict[str, Any]], optional: bool) -> None:
        keys = [a["key"] for a in cands if a["alive"]]
        if any(a["fin"] for a in cands):
            optional = True
        ref.want.append((nn, typ, keys, optional))

    def due_deliveries(now: float) -> None:
        evs: List[Tuple[float, int, Any]] = []
        for sid, (due, actor, nn) in list(ref.pending.items()):
            if due <= now + 1e-9:
                del ref.pending[sid]
                evs.append((due, 0, (actor, nn)))
        keep = []
        for due, actor in ref.late:
            if due <= now + 1e-9:
                evs.append((due, 1, actor))
            else:
                keep.append((due, actor))
        ref.late = keep
        for _due, kind, x in sorted(evs, key=lambda e: e[0]):
            if state["stopped"]:
                continue
            if kind == 0:
                actor, nn = x
                if actor["alive"]:
                    want_now("MSG", nn, [actor], False)
            elif x["alive"]:
                ref.parent_got.append("LATE")

    def apply_ref(op: str, form: Optional[str]) -> Dict[str, Any]:
        payload: Dict[str, Any] = {}
        if state["stopped"]:
            return payload
        if op == "SPA":
            ref.spawn("a", "sysA")
        elif op == "SPB":
            ref.spawn("b", None)
        elif op == "SPK":
            ref.spawn(None, None)
        elif op == "SPN":
            ref.spawn("n", None)
        elif op in ("SEND", "DSEND", "DSND2"):
            state["seq"] += 1
            payload = {"n": state["seq"]}
            if op == "SEND":
                cands, opt = ref.resolve(form or "sysA")
                want_now("MSG", state["seq"], cands, opt)
            else:
                sid, target = ("d1", "sysA") if op == "DSEND" else ("d2", "b")
                cands, _opt = ref.resolve(target)
                if cands:
                    ref.pending[sid] = (state["now"] + 0.02, cands[0], state["seq"])  # same id supersedes
                # (an unresolvable target is dropped at send time and leaves an earlier 'sid' alone)
        elif op == "CANC":
            ref.pending.pop("d1", None)
        elif op == "GSND":
            state["seq"] += 1
            payload = {"n": state["seq"]}
            g = ref.system.get("sysG")
            if g is not None and g["alive"] and not g["fin"]:
                want_now("GACK", state["seq"], [g], False)     # the grandchild's reply lands at its parent (registered as sysA)
        elif op == "STPA":
            cands, _opt = ref.resolve("a")
            if cands:
                ref.kill(cands[0])
        else:
            cands, _opt = ref.resolve("n" if op == "KFIN" else "sysA")
            if op == "AFIN":
                op = "KFIN"      # same effect on the reference: the addressed child reaches its final state
            a = cands[0] if cands and cands[0]["alive"] else None
            if op == "FWD":
                state["seq"] += 1
                payload = {"n": state["seq"]}
                if a is not None:
                    want_now("FWD", state["seq"], [a], False)
            elif a is not None and not a["fin"]:
                if op == "PING":
                    ref.parent_got.append("PONG")
                elif op == "ESC":
                    ref.parent_got.append("xstate.error.actor.m:a")
                elif op == "LATR":
                    ref.late.append((state["now"] + 0.02, a))
                elif op == "KFIN":
                    a["fin"] = True
                elif op == "GRND":
                    a["grand"] = True
                    ref.system["sysG"] = a      # the registry entry of the grandchild; it lives and dies with (and answers to) 'a'
        return payload

    def check_registry(it: Any) -> Optional[str]:
        if state["stopped"]:
            if it._actors:
                return f"children map not empty after stop(): {list(it._actors)}"
            running = [a.id for a in state["everyone"] if a.status == "running"]
            if running:
                return f"actors still running after the parent's stop(): {running}"
            left = sorted(it.system.get_all())
            if left:
                return f"system registry still lists {left} after the parent's stop()"
            return None
        live = ref.live()
        got = sorted(_key_of(i) for i in it._actors)
        must = sorted(("auto" if a["auto"] else a["key"]) for a in live if not a["fin"])
        may = sorted(("auto" if a["auto"] else a["key"]) for a in live)
        from collections import Counter

        cg, cmust, cmay = Counter(got), Counter(must), Counter(may)
        # every live unfinished child must be there; a FINISHED child may or may not still be registered (each one independently)
        if (cmust - cg) or (cg - cmay):
            return f"children map holds {sorted(it._actors)}, reference expects {must}" + (f" (optionally also the finished {sorted((cmay - cmust).elements())})" if cmay != cmust else "")
        for i, a in it._actors.items():
            if a.status != "running" and _key_of(i) in must:
                return f"registered child {a.id} has status {a.status}"
        for a in live:
            if a["fin"] and a["key"] not in got:
                ref.kill(a)          # a finished child that the engine has deregistered is no candidate any more
        sysgot = {k: (_key_of(v.id) if k != "sysG" else v.id) for k, v in it.system.get_all().items()}
        syswant = {k: (v["key"] if k != "sysG" else "m:a:g1") for k, v in ref.system.items()}
        if sysgot != syswant:
            return f"system registry {sysgot}, reference {syswant}"
        return None

    def final_check() -> Optional[str]:
        got = [((_key_of(i) + "1") if _key_of(i) == "auto" else _key_of(i), t, nn) for (i, t, nn) in CTL["recv"]]
        # exactly once, to exactly the addressed actor
        for nn, typ, keys, optional in ref.want:
            rc = [k for k, t, x in got if t == typ and x == nn]
            if len(rc) > 1:
                return f"{typ}#{nn} delivered {len(rc)} times ({rc})"
            if rc and rc[0] not in keys:
                return f"{typ}#{nn} delivered to {rc[0]}, reference allows {keys or 'nobody (unresolvable/ambiguous/stopped)'}"
            if not rc and keys and not optional:
                return f"{typ}#{nn} for {keys} was never delivered (received: {got})"
        wanted = {(typ, nn) for nn, typ, _k, _o in ref.want}
        for k, t, nn in got:
            if (t, nn) not in wanted:
                return f"actor {k} received {t}#{nn} which the reference never delivers (cancelled / superseded / stopped)"
        # sending order per receiver
        order = [(typ, nn) for nn, typ, _k, _o in ref.want]
        for key in {k for k, _t, _n in got}:
            g = [(t, nn) for k, t, nn in got if k == key]
            w = [x for x in order if x in g]
            if g != w:
                return f"actor {key} received {g}, sending order is {w}"
        if sorted(CTL["pongs"]) != sorted(ref.parent_got):
            return f"parent received {CTL['pongs']} from its children, reference {ref.parent_got}"
        return None

    def everyone(it: Any) -> List[Any]:
        out = []
        for a in list(it._actors.values()):
            out.append(a)
            out.extend(everyone(a))
        return out

    if eng == 0:
        S = vthread.SCHED
        S.reset(0.0)
        CTL["clock"] = lambda: S.now
        it = SyncInterpreter(m)
        it.start()
        for op in ops:
            form = next_form() if op == "SEND" else None
            if form:
                CTL["form"] = form
            if op == "ADV":
                S.advance_by(0.03)
                state["now"] = S.now
                due_deliveries(state["now"])
            elif op == "STOP":
                state["everyone"].extend(everyone(it))
                it.stop()
                state["stopped"] = True
                ref.pending.clear()
            else:
                payload = apply_ref(op, form)
                it.send(op, **payload)
                S.advance_by(0.0)     # lets a freshly created runner thread start its child
                if op == "KFIN":
                    S.advance_by(0.01)  # one polling period: the runner notices the final state
                    state["now"] = S.now
                    due_deliveries(state["now"])
            w = check_registry(it)
            if w:
                it.stop()
                S.advance_by(0.02)
                return f"after {op}: {w}"
        S.advance_by(0.05)
        state["now"] = S.now
        due_deliveries(state["now"])
        why = None
        if not state["stopped"]:
            state["everyone"].extend(everyone(it))
            it.stop()
            state["stopped"] = True
            why = check_registry(it)
            if why:
                why = f"after the final stop(): {why}"
        nb = len(CTL["beats"])
        S.advance_by(0.05)
        if S.errors:
            return f"runner thread raised: {S.errors}"
        if why:
            return why
        if len(CTL["beats"]) != nb:
            return f"a descendant actor is still ticking after stop(): {CTL['beats'][nb:]}"
        return final_check()

    import asyncio

    lp = vloop.VLoop()
    CTL["clock"] = lambda: lp.time()
    it = Interpreter(m)
    box: Dict[str, Any] = {"why": None}

    async def settle() -> None:
        for _ in range(200):
            busy = it._event_queue._unfinished_tasks
            for a in everyone(it):
                q = getattr(a, "_event_queue", None)
                if q is not None and hasattr(q, "_unfinished_tasks") and a.status == "running":
                    busy += q._unfinished_tasks
            await asyncio.sleep(0)
            if not busy:
                return

    async def go() -> None:
        await it.start()
        for op in ops:
            form = next_form() if op == "SEND" else None
            if form:
                CTL["form"] = form
            if op == "ADV":
                await asyncio.sleep(0.03)
                await settle()
                state["now"] = lp.time()
                due_deliveries(state["now"])
            elif op == "STOP":
                state["everyone"].extend(everyone(it))
                await it.stop()
                state["stopped"] = True
                ref.pending.clear()
            else:
                payload = apply_ref(op, form)
                await it.send(op, **payload)
                await settle()
                await settle()
            w = check_registry(it)
            if w:
                box["why"] = f"after {op}: {w}"
                await it.stop()
                return
        await asyncio.sleep(0.05)
        await settle()
        state["now"] = lp.time()
        due_deliveries(state["now"])
        if not state["stopped"]:
            state["everyone"].extend(everyone(it))
            await it.stop()
            state["stopped"] = True
            w = check_registry(it)
            if w:
                box["why"] = f"after the final stop(): {w}"
                return
        nb = len(CTL["beats"])
        await asyncio.sleep(0.05)
        if len(CTL["beats"]) != nb:
            box["why"] = f"a descendant actor is still ticking after stop(): {CTL['beats'][nb:]}"
            return
        box["why"] = final_check()

    vloop.run(go(), lp)
    lp.close()
    return box["why"]


OBLIGATIONS = {"actor_seq": actor_seq}
PROBES = {"actor_seq": [{"o1": 4, "o2": 8, "o3": 4}, {"o1": 5, "o2": 7, "o3": 15}, {"o1": 13, "o2": 16}, {"o1": 2, "o2": 2, "o3": 4, "f1": 3},
                        {"o1": 11, "o2": 8, "o3": 15}, {"o1": 3, "o2": 14, "o3": 1, "o4": 4, "f1": 3}]}


def items(tier: str, seed: int) -> List[Dict[str, Any]]:
    quick = tier == "quick"
    out: List[Dict[str, Any]] = []

    def add(eng: int, prefix: List[str], n: int, timeout: int) -> None:
        e = "sync" if eng == 0 else "async"
        out.append({"ob": "actor_seq", "params": {"eng": eng, "prefix": prefix, "N": n}, "timeout": timeout,
                    "label": f"actor_seq[{e},{','.join(prefix)}+{n - len(prefix)}]"})

    for eng in (0, 1):
        # length 4, first operation SPA: sharded by the second (and, for SEND, third) operation
        for second in OPS:
            if second == "SEND":      # the addressing form multiplies this shard by 8: split it by the third operation
                for third in OPS:
                    add(eng, ["SPA", second, third], 4, 300)
                continue
            add(eng, ["SPA", second], 4, 300)
        for second in ("KFIN", "SPN", "SPB", "SPK"):
            add(eng, ["SPN", second], 4, 300)
        for first in ("SPK", "SPB", "SPN", "SEND"):
            add(eng, [first], 3, 300)
        # a bare service key that resolved uniquely once must be re-resolved after another child of that service appeared
        # (or the first one went away): send, change the population, send again
        for third in ("SPK", "SPB", "STPA", "KFIN"):
            add(eng, ["SPK", "SEND", third], 4, 300)
        if not quick:
            # length 5 for the operation pairs that set up the interesting states (two more symbolic operations + forms)
            for second in ("SPN", "GRND", "STPA"):
                for third in OPS:
                    add(eng, ["SPA", second, third], 5, 900)
            for first in ("SPK", "SPN"):
                for second in OPS:
                    add(eng, [first, second], 4, 600)
    return out
