#!/bin/sh
# Verifies one seeded change in a scratch worktree of /repo's HEAD and runs a check against it.
# usage: tools/seedcheck.sh <dir with patch.diff + demo.py> <Cxx> [--suite] [extra bin/check args, e.g. --only ob]
#   demo on the clean tree must exit 0, on the mutated tree non-zero; with --suite the full test suite is run on the
#   mutated tree as well.  The check runs with PYTHONPATH pointing at the mutated tree (never /repo) and its evidence
#   redirected, and stops at the first reproduced counterexample.  The worktree is removed afterwards.
SD="$(cd "$1" && pwd)"; PROP="$2"; shift 2
SUITE=0; [ "$1" = "--suite" ] && { SUITE=1; shift; }
HERE="$(cd "$(dirname "$0")/.." && pwd)"
TAG="$(basename "$SD")"
WT="/tmp/sw-$TAG"; EV="/tmp/sw-ev-$TAG"
git -C /repo worktree remove --force "$WT" >/dev/null 2>&1; rm -rf "$WT" "$EV"
git -C /repo worktree add --detach "$WT" HEAD >/dev/null 2>&1 || { echo "worktree failed"; exit 2; }
mkdir -p "$EV"
P="$SD/patch.diff"; [ -f "$SD/patch_rebased.diff" ] && P="$SD/patch_rebased.diff"
( cd "$WT" && PYTHONPATH="$WT/src" timeout 300 /venv/bin/python "$SD/demo.py" >"$EV/demo_clean.out" 2>&1 ); echo "$TAG demo_clean rc=$?"
git -C "$WT" apply "$P" || { echo "$TAG patch does not apply"; git -C /repo worktree remove --force "$WT"; exit 2; }
( cd "$WT" && PYTHONPATH="$WT/src" timeout 300 /venv/bin/python "$SD/demo.py" >"$EV/demo_mut.out" 2>&1 ); echo "$TAG demo_mutated rc=$?"
tail -3 "$EV/demo_mut.out" | cut -c1-300
if [ $SUITE = 1 ]; then
  ( cd "$WT" && PYTHONPATH="$WT/src" /venv/bin/python -m pytest -q -p no:cacheprovider --timeout=900 2>&1 | tail -1 ) | sed "s/^/$TAG suite: /"
fi
( cd "$HERE" && PYTHONPATH="$WT/src" VF_EVIDENCE_DIR="$EV" VF_STOP_ON_REFUTED=1 bin/check "$PROP" --tier quick "$@" >"$EV/check.out" 2>&1 ); RC=$?
echo "$TAG check $PROP $* rc=$RC"
grep -h "^SUMMARY\|^VIOLATION\|^HARNESS-ERROR\|^INCONCLUSIVE" "$EV/check.out" | cut -c1-260 | head -8
git -C /repo worktree remove --force "$WT" >/dev/null 2>&1; rm -rf "$WT"
exit 0
