#!/usr/bin/env python3
"""Assembles /verif/DESIGN.md from the design-round text (tools/design_round.md)
and the as-built inserts (tools/asbuilt_*.md, tools/sec4_new.md,
tools/seed_table.json, tools/timings.json). Run: python3 tools/build_design.py"""
import json
import os
import re

ROOT = os.path.dirname(os.path.dirname(os.path.abspath(__file__)))
T = lambda n: open(os.path.join(ROOT, "tools", n), encoding="utf-8").read()  # noqa: E731


def section(text: str, start_pat: str, end_pat: str, new: str) -> str:
    m1 = re.search(start_pat, text, re.M)
    m2 = re.search(end_pat, text[m1.end():], re.M)
    assert m1 and m2, (start_pat, end_pat)
    return text[: m1.start()] + new + text[m1.end() + m2.start():]


def seeds_table() -> str:
    tab = json.load(open(os.path.join(ROOT, "tools", "seed_table.json")))
    rows = ["| seed | what was changed | caught by | obligation / remark |", "|---|---|---|---|"]
    for sid in sorted(tab):
        chk, how = tab[sid]
        meta = json.load(open(os.path.join(ROOT, "seeded", sid, "meta.json")))
        summ = (meta.get("summary") or "").replace("|", "/").replace("\n", " ")
        if len(summ) > 230:
            summ = summ[:227] + "..."
        rows.append(f"| {sid} | {summ} | {chk or '- (see remark)'} | {how.replace('|', '/')} |")
    return "\n".join(rows)


def timings() -> str:
    p = os.path.join(ROOT, "tools", "timings.json")
    if not os.path.exists(p):
        return "_(timings are filled in from the last full refresh: see evidence/*.json `wall_s`)_\n"
    t = json.load(open(p))
    rows = ["| property | quick: items / discharged / wall s | thorough: items / discharged / inconclusive / wall s |", "|---|---|---|"]
    for pid in sorted(t):
        q = t[pid].get("quick", {})
        th = t[pid].get("thorough", {})
        rows.append(f"| {pid} | {q.get('items','-')} / {q.get('discharged','-')} / {q.get('wall_s','-')} | "
                    f"{th.get('items','-')} / {th.get('discharged','-')} / {th.get('inconclusive','-')} / {th.get('wall_s','-')} |")
    return "\n".join(rows) + "\n"


def main() -> None:
    d = T("design_round.md")
    d = d.replace("Status: design round (no framework code yet). Everything below marked *probed*",
                  "Status: built. Section 0A records what exists and what it found; the remaining sections are the\n"
                  "design-round text, kept because they explain the approach, with section 4 (C15, C16, C17, C19), 6 and 8\n"
                  "brought up to date. Everything below marked *probed*")
    insert = T("asbuilt_head.md") + T("asbuilt_mid.md") + "\n### 0A.8 Seeded changes and the checks that catch them\n\n" \
        "One hundred and twenty-six changes (two per property in rounds 1 and 2, two for twelve properties in round 3, two for the other eight in round 4, one for six properties in round 5) were written by sub-agents that saw only the property text and a scratch\n" \
        "worktree, later rounds were asked for mechanisms different from the earlier ones. Each was re-verified here in a\n" \
        "fresh worktree (demo passes on the clean tree, fails on the mutated one, the full suite still passes) before\n" \
        "being kept under `seeded/`. Each was then applied to /repo, the relevant quick items were run, and the patch\n" \
        "was reverted.\n\n" + seeds_table() + "\n\n" + T("asbuilt_round2.md") + \
        "\n### 0A.9 Tiers and measured cost\n\n" + timings() + "\n" + T("asbuilt_tail.md") + \
        "\n---------------------------------------------------------------------------\n\n"
    d = d.replace("## 1. Why CrossHair-on-the-real-code rather than a hand translation", insert + "## 1. Why CrossHair-on-the-real-code rather than a hand translation", 1)
    d = d.replace("(argparse → files → `black` subprocess → exit status): only its deciding\nkernels are checked.",
                  "(argparse → files → `black` → exit status) cannot be *traced*: as built, the whole\nCLI is run natively on solver-chosen inputs (C17, see 0A.2).")
    d = d.replace("**Known state of the pinned tree.** Design probes already reproduced genuine\nviolations of C01, C03, C04/C13, C05, C08, C11, C12, C16, C17, C18, C19 (list in\n§6). They are defects of the library, not of the checks; each will be either\nrepaired by one minimal `fix:` commit or recorded in\n`/verif/known_findings.json` (mechanism in §2.7).",
                  "**State of the tree.** The checks found 23 genuine defects on the pinned tree; all were repaired by\nminimal `fix:` commits (0A.5). Four further genuine defects are recorded as known findings (0A.6).")
    new4 = T("sec4_new.md")
    parts = {}
    for name in ("C15", "C16", "C17", "C19"):
        m = re.search(rf"^### {name} .*?(?=^### C|\Z)", new4, re.M | re.S)
        parts[name] = m.group(0)
    d = section(d, r"^### C15 — actors.*$", r"^### C16 ", parts["C15"])
    d = section(d, r"^### C16 — determinism.*$", r"^### C17 ", parts["C16"])
    d = section(d, r"^### C17 — code generator.*$", r"^### C18 ", parts["C17"])
    d = section(d, r"^### C19 — Python-defined machines.*$", r"^### C20 ", parts["C19"])
    add = json.load(open(os.path.join(ROOT, "tools", "sec4_addenda.json")))
    for pid, text in add.items():
        m = re.search(rf"^### {pid} .*?(?=^### C\d\d |^## 5\. )", d, re.M | re.S)
        assert m, pid
        d = d[: m.end()] + text + "\n\n" + d[m.end():]
    d = section(d, r"^## 6\. Violations already reproduced.*$", r"^## 7\. ",
                "## 6. Violations reproduced at design time - all triaged\n\nEvery entry of the design-round list was confirmed by a check and "
                "either repaired (0A.5) or, for `_snake_to_camel`'s `str.title()` quirk, recognised as permitted by the statement "
                "(a name that does not bind fails fast at creation; `camel_map` checks that the two copies agree and that plain "
                "snake_case names convert as documented).\n\n---------------------------------------------------------------------------\n\n")
    d = section(d, r"^## 8\. Not applicable.*$", r"\Z", T("asbuilt_na.md"))
    d = d.replace("* **Corrections log** (false alarms found while building go here, with what\n  was changed): *empty at design time.*",
                  "* **Corrections log**: see 0A.7.")
    open(os.path.join(ROOT, "DESIGN.md"), "w", encoding="utf-8").write(d)
    print("DESIGN.md written,", len(d.splitlines()), "lines")


if __name__ == "__main__":
    main()
