#!/usr/bin/env python3
"""Regenerates /verif/MANIFEST.json from the table below (kept valid at all
times; validated against /root/.vp/MANIFEST.schema.json when available)."""
import json
import os
import sys

ROOT = os.path.dirname(os.path.dirname(os.path.abspath(__file__)))

TECH = ("symbolic execution of the real library code with CrossHair 0.0.110 (z3 back end): per-obligation verdict "
        "'Confirmed over all paths' within stated bounds, counterexamples replayed natively")

CLAIMS = {
    "C01": {
        "text": "Bounded symbolic check (CrossHair/z3 on the real SyncInterpreter/Interpreter code): one transition from every legal, publicly reachable (configuration, history) pair of each skeleton machine, with symbolic source/target/reenter and free target strings, preserves the five legality clauses at every observation point; start() and snapshot/restore too. An inductive step, so event histories of any length over the covered transition kinds are covered; machines are the enumerated skeleton family, not all machines.",
        "note": "Trusts CrossHair's path exhaustion + z3, the short legality oracle (vf/model.py), the stubs (null logger, pinned StateNode hash, virtual-time loop). Pre-states: arbitrary legal configuration x history assignments reachable by public send() over a driver alphabet. Outside: machines beyond the skeleton family (curated CUR1-9 + generated trees <=4/5 nodes), services/timers during the step, multi-target transitions.",
        "design": "DESIGN.md section 4 C01",
    },
    "C20": {
        "text": "Bounded symbolic check: BaseInterpreter._matching_descriptors on 2-3 symbolic (arbitrary unicode) keys and a symbolic event type equals the reference ordering exact > partial by decreasing prefix > '*', engine-internal events exact only; and send() of a symbolic event type on a two-level machine with symbolic guard outcomes and null entries fires exactly the reference nominee on both engines.",
        "note": "Trusts CrossHair/z3 and the reference descriptor_ref/_select_ref. String lengths bounded (L in evidence); a duck-typed linear-scan mapping replaces dict for symbolic keys; the engine-level machine is one fixed two-level shape with 7 null-entry variants.",
        "design": "DESIGN.md section 4 C20",
    },
}

NOT_YET = {}


def main() -> int:
    props = [json.loads(l)["id"] for l in open(os.path.join(ROOT, "properties.jsonl"))]
    checks = []
    na = []
    for pid in props:
        c = CLAIMS.get(pid)
        if c is None:
            na.append({"property_id": pid, "reason": NOT_YET.get(pid, "harness not built yet in this round; no claim is made for this property")})
            continue
        checks.append({
            "property_id": pid,
            "quick_cmd": f"bin/check {pid} --tier quick",
            "thorough_cmd": f"bin/check {pid} --tier thorough",
            "evidence_file": f"/verif/evidence/{pid}.json",
            "replay_cmd_template": f"bin/check {pid} --replay {{path}}",
            "engine": "crosshair-z3",
            "level_claimed": {"category": "other", "text": c["text"], "design_ref": c["design"]},
            "level_note": c["note"],
            "technique": TECH,
        })
    man = {
        "version": 1,
        "setup_cmd": "sh bin/setup",
        "hooks": {
            "guard": "XSTATE_VERIF",
            "enable": "no source hooks are needed: every stub is installed from the harness by replacing module attributes at run time (vf/env.py); XSTATE_VERIF is unused by the library",
            "baseline_off_cmd": "cd /repo && /venv/bin/python -m pytest -ra -q -p no:cacheprovider --timeout=900 --continue-on-collection-errors",
            "source_commits": [],
            "add_only": True,
        },
        "engines": [{
            "name": "crosshair-z3",
            "path": "/verif/vf/engine.py",
            "serves_properties": [c["property_id"] for c in checks],
            "kind_free_text": "CrossHair 0.0.110 symbolic execution of /repo's working tree through its Python API, z3 5.1 back end; runner shards obligations over 16 processes; counterexamples replayed natively (vf/replay.py)",
        }],
        "checks": checks,
        "notes": "Exit codes of bin/check: 0 = nothing refuted beyond known findings (KNOWN-FINDING lines), 1 = reproducing counterexample (VIOLATION line), 3 = harness error. Genuine defects repaired in /repo by 'fix:' commits are listed in known_findings.json ('fixed').",
        "not_applicable": na,
    }
    path = os.path.join(ROOT, "MANIFEST.json")
    with open(path, "w") as f:
        json.dump(man, f, indent=1)
    try:
        import jsonschema  # type: ignore

        jsonschema.validate(man, json.load(open("/root/.vp/MANIFEST.schema.json")))
        print("MANIFEST valid;", len(checks), "claimed,", len(na), "not applicable")
    except ImportError:
        print("written (jsonschema not available here)")
    return 0


if __name__ == "__main__":
    sys.exit(main())
