#!/usr/bin/env python3
"""Regenerates /verif/MANIFEST.json from the table below (kept valid at all
times; validated against /root/.vp/MANIFEST.schema.json when available)."""
import json
import os
import sys

ROOT = os.path.dirname(os.path.dirname(os.path.abspath(__file__)))

TECH = ("symbolic execution of the real library code with CrossHair 0.0.110 (z3 back end): per-obligation verdict "
        "'Confirmed over all paths' within stated bounds, counterexamples replayed natively")

CLAIMS = {
    "C01": {
        "tech": TECH + "; obligation descendant_smt: AST-to-SMT symbolic execution of _is_descendant on unbounded z3 strings (z3 5.1, cvc5 1.0.3 on z3's unknowns), models replayed natively",
        "text": "Bounded symbolic check (CrossHair/z3 on the real SyncInterpreter/Interpreter code): one transition from every legal, publicly reachable (configuration, history) pair of each skeleton machine, with symbolic source/target/reenter and free target strings, preserves the five legality clauses at every observation point; start() and snapshot/restore too; a transition that aborts in the middle of its entry or exit phase (symbolic victim state with an unimplemented action) leaves a legal configuration equal to the one before. An inductive step, so event histories of any length over the covered transition kinds are covered; machines are the enumerated skeleton family, not all machines. descendant_smt: the AST of BaseInterpreter._is_descendant executed on z3 string terms (vf/ast2smt.py, z3 + cvc5): on a 7-node tree with a machine id and state keys of ANY length (non-empty, dot-free, siblings distinct) all 49 (node, ancestor) answers equal tree ancestry.",
        "note": "Trusts CrossHair's path exhaustion + z3, the short legality oracle (vf/model.py), the stubs (null logger, pinned StateNode hash, virtual-time loop). Pre-states: arbitrary legal configuration x history assignments reachable by public send() over a driver alphabet. Outside: machines beyond the skeleton family (curated CUR1-9 + generated trees <=4/5 nodes), services/timers during the step, multi-target transitions.",
        "design": "DESIGN.md section 4 C01",
    },
    "C02": {
        "text": "Bounded symbolic check: send()/can() on wired skeleton machines from every legal configuration with every guard outcome symbolic (true/false/raise, one independent variable per evaluated guard): the transitions that fire are exactly the reference nominees (deepest handler, first enabled, once per region, stale sources skipped), in order, each guard evaluated once per pass; an event with no nominee changes nothing; can() agrees and changes nothing. Events E5 (an empty - targetless, actionless - guarded candidate on every leaf shadows the ancestors' fallback and is reported by can()) and E6 (guards spelled with the v4 key cond); the declared candidate lists of the config are compared with the parsed machine before any run.",
        "note": "Trusts CrossHair/z3, the reference selection in harness/c02.py, the stubs. Machines: curated skeletons wired with a fixed 5-event alphabet (E0..E3,U) + generated small trees; guards assumed pure. Outside: descriptor matching (C20), guards with side effects, machines beyond the family.",
        "design": "DESIGN.md section 4 C02",
    },
    "C03": {
        "text": "Bounded symbolic check (inductive step): one transition with symbolic source/target/reenter from every publicly reachable (configuration, history) pair of each skeleton, on both engines; the recorder log of marker entry/exit/transition actions and the observed _cancel_state_tasks/_schedule_state_tasks calls satisfy exit<transition<entry, child-before-ancestor exits, ancestor-before-child entries, event identity, per-state entry/exit accounting, never-entered-while-active and the LCA frame condition; internal/targetless transitions run actions only.",
        "note": "Trusts CrossHair/z3, the log oracle in harness/c03.py, the stubs. Timer/service effects observed at the engine's own entry points (states declare none). Outside: multi-transition macrosteps (C02/C10), machines beyond the skeleton family.",
        "design": "DESIGN.md section 4 C03",
    },
    "C04": {
        "text": "Bounded symbolic check with sequentialised producers: a machine whose actions send to their own interpreter (plain send / raise) at 6 symbolically selected positions (entry during start(), exit, transition actions, choose branch, always action), single sends and send_events() batches of symbolic size; under virtual time two producers sending at symbolic instants next to an after-timer and a slow action of symbolic duration. Oracle over the bracket log opened by on_event_received: every accepted event processed exactly once, brackets never nest, per-sender order preserved, eventless follow-ups complete inside their bracket, raised events are handled after the current bracket. Both engines. (Bursts larger than maxIterations: see C13.) start_raise: an entry action raising during start() (root / compound initial state / its child; built-in raise, raise with delay 0, user send()) is handled only after the whole initial entry. batch_fault: a faulty event at a symbolic position of a send_events batch loses nothing that follows. volume: n in {3, 40, 1100, 2100} external events with 0-2 raised follow-ups each, submitted as str / one re-used dict / fresh dicts / one re-used Event, one by one, as a batch or from two interleaved producers: each processed exactly once, no deadlock, payload intact.",
        "note": "NARROWER THAN THE STATEMENT: pre-emptive interleavings of two OS threads inside send()/_process_event_queue (check-then-set on the re-entrancy flag, lost wake-ups) are not covered - CrossHair executes one thread; producers are sequentialised and only WHERE/WHEN they send is symbolic. Trusts CrossHair/z3 and the virtual-time stubs.",
        "design": "DESIGN.md section 4 C04",
    },
    "C13": {
        "text": "Bounded-fuel symbolic check: machines with each feedback path (mutually enabling always, an action raising its own trigger, onDone re-completing its own state, done.invoke re-entering the invoking state, parallel regions each running an always chain) with symbolic maxIterations in [1,5], natural chain length in [0,7] or unbounded, trigger = start() or an event: every call returns within F chain steps (a fuel counter raising a BaseException turns non-termination into a counterexample), chains not longer than the bound run to their natural end, the configuration is legal and the next event is processed afterwards; mixed chains whose feedback link is raised during the eventless phase or by an entry action; bursts of symbolic size (plain, re-arming a delayed self-raise, forwarded to a child actor) sent one by one or with send_events() are all processed whatever maxIterations is; after every event of a symbolic sequence with failing nested pure/choose/enqueueActions expansions the counters that implement the bounds are back at their rest values (inductive step against accumulation); under the async engine a heartbeat task keeps advancing while a chain runs. Both engines.",
        "note": "NARROWER THAN THE STATEMENT: termination only in the bounded-fuel sense, for maxIterations <= 5 and the listed feedback kinds. Trusts CrossHair/z3, the virtual-time stubs; self-enqueueing pure/choose/enqueueActions expansion (MAX_ACTION_DEPTH) is not exercised.",
        "design": "DESIGN.md section 4 C13",
    },
    "C05": {
        "text": "Bounded symbolic check: a feature machine (hierarchy, parallel, history incl. history targets from inside the parent, guards, assign/raise/choose/pure/enqueueActions, always, onDone, sync service, final output) is run on SyncInterpreter, on Interpreter (virtual-time loop, observed at quiescence) and through initial_transition/transition with the same symbolic events and guard outcomes; after every event configuration, context, status, output and the ordered action/marker traces with their triggering events are equal; one-step variant from every non-final configuration x recorded history; the pure functions run no user code and leave machine and snapshot unchanged; one transition with symbolic source/target/reenter from every reachable pre-state of skeletons with parallel states and history yields the same configuration and the same ordered markers (with event and payload) on both engines; on skeletons with ambiguous keys every resolvable target spelling (symbolic string) leads both engines to the same configuration. cut_agree: where the maxIterations bound cuts a self-feeding chain (always, done.state, parallel always, four raise chains; maxIterations, natural length and trigger symbolic) both engines stop at the same place with the same context.",
        "note": "Trusts CrossHair/z3 and the virtual-time loop. One machine (FM, and FM without service for the pure API: the pure probe suppresses services by design); sequences of 2 (quick) / 3 events + the one-step variant. The synthetic init event handed to entry actions during start() is not compared (there is no triggering event). Known finding C05-start-raise-chain-cut-differs (raise chains started by start() are cut one link later by the asyncio engine). done.invoke chains are outside cut_agree.",
        "design": "DESIGN.md section 4 C05",
    },
    "C12": {
        "text": "Bounded symbolic check (bisimulation step): from every constructed quiescent state of the feature machine (configuration x history x context) and from public runs cut after every event, snapshot -> from_snapshot (1-2 cycles; async start() resume) yields an interpreter equal in configuration, context, history, status, output, error, actors and systemIds, whose re-snapshot reproduces the snapshot, which is valid JSON and is not altered by later execution, and which agrees with the original on one more symbolic event; parent/child hierarchies with systemId (also after the parent completed); history skeletons; structurally corrupted snapshots (key x replacement symbolic) are rejected with a library error, unknown state ids with StateNotFoundError, non-JSON text with InvalidConfigError; a cut in a terminal status (done with truthy / falsy output, done + stop(), error, error + stop(), stopped) reproduces status, output, error presence and the snapshot; a snapshot dict kept by the user is not changed by later execution; a context machine whose actions delete declared keys, add keys, store falsy values and clear the context is cut at a symbolic position: the restored context equals the uninterrupted one exactly.",
        "note": "Trusts CrossHair/z3; json encode/decode of concrete snapshots runs natively (common.native) because CrossHair's pure-Python json is pathologically slow - no symbolic value enters it. Corruption space = 9 keys x 13 replacements x 4 strings. Pending timers/in-flight services excepted as documented.",
        "design": "DESIGN.md section 4 C12",
    },
    "C06": {
        "text": "Bounded symbolic check: GuardDefinition + _is_guard_satisfied on 7 expression templates (depth<=3) with symbolic operators, operand spellings and atom outcomes (true/false/raise/missing) against a three-valued short-circuit reference; every atom form incl. literal/computed params and user-defined stateIn; _is_state_in with a free symbolic state name against concrete configurations; cond==guard at transition and choose level; raising/missing guards inside selection on both engines; same-named guards with different params in one selection pass.",
        "note": "Trusts CrossHair/z3 and the references in harness/c06.py. Expression space = the templates, not all formulas; state names <= 4 (quick) / 6 chars; string-form stateIn params only with concrete names (a symbolic str there makes CrossHair's tree explode).",
        "design": "DESIGN.md section 4 C06",
    },
    "C07": {
        "text": "Bounded symbolic check (fault twin): a fault machine is run fault-free and with a symbolic fault vector over the call sites of user actions and assign/pure callbacks (k-th call raises iff bit k, weight<=1 quick / 2 thorough, exception class symbolic incl. the library's own error types): the faulty trace equals the twin's minus exactly the remainder of each faulted action-list occurrence, same configurations/status/later events, on_action_error once per fault; a raising plugin hook / subscriber / emit listener at a symbolic call index changes nothing; a symbolically chosen broken declaration (unimplemented action, coroutine action under sync, unregistered service, unresolvable target) leaves the configuration exactly as before the failing send, re-arms every cancelled state, is raised from send() (sync) / survived (async), and the rest of the run equals a twin that skipped the event. Both engines.",
        "note": "Trusts CrossHair/z3 and the twin comparison in harness/c07.py. One machine FT (+2 variants), 3 fixed event sequences; timers/services are observed at _cancel_state_tasks/_schedule_state_tasks (not started). Faults during start() and BaseException faults are outside.",
        "design": "DESIGN.md section 4 C07",
    },
    "C08": {
        "text": "Bounded symbolic check under a virtual clock (virtual-time asyncio loop; virtual threads for the sync engine): a timer machine with two named-delay `after` entries (second guarded), leave / re-enter / slow-action / stop paths; delays, slow-action duration and the instants of two external stimuli are symbolic integers (ms), so z3 decides every before / same-instant / after ordering of deadlines and events. Oracle over the time-stamped log: a delayed transition fires only after its state has been continuously active for the delay resolved at that entry and with its guard true, at most once per activation, exactly at the deadline when the interpreter is idle, never for an activation that was left or stopped before; at quiescence and at the end no more timer tasks/threads are pending than the active states own. Both engines.",
        "note": "Trusts CrossHair/z3 (floats modelled as reals: exact arithmetic), the virtual-time stubs vf/vloop.py and vf/vthread.py (a timer thread's body runs atomically at its deadline, between harness calls or inside the slow action). Outside: real scheduler latency, pre-emptive thread interleavings inside send(), more than two stimuli, machines other than TM.",
        "design": "DESIGN.md section 4 C08",
    },
    "C09": {
        "text": "Bounded symbolic check under a virtual clock: an invoke machine (compound invoking state, declared input, onDone/onError, leave / re-enter / deep re-entry / slow action / stop) with symbolic service completion time and outcome and two stimuli at symbolic instants: each entry starts the service exactly once with the declared input; a completion of the current activation is processed exactly once with data = return value / exception; a completion of an exited activation - even after re-entry - drives nothing; at quiescence and after stop() no service task is alive; a failing service without onError puts the interpreter into status error with the exception recorded; invoking a child machine starts one child per activation, fires onDone when it finishes and stops/unregisters it on exit/stop. Both engines (sync services complete at once). multi_invoke: a machine with a list of invokes on one state, invokes in two parallel regions and on their parent, a source shared by two states, an id-less invoke and a handler that leaves its state while a sibling invocation is running; invoke_schedule additionally with the service registered as callable object / plain-def wrapper / functools.partial.",
        "note": "Trusts CrossHair/z3 (floats as reals) and the virtual-time stubs. One machine family (IM, IM2, IM3); the service awaits only asyncio.sleep, so cancellation lands at that await; the sync engine's machine-invoke uses a polling runner thread (time.sleep) which the virtual threads cannot model and is skipped. multi_invoke: completion time and outcome of one service and one stimulus instant are symbolic, the others fixed per item.",
        "design": "DESIGN.md section 4 C09",
    },
    "C14": {
        "text": "Bounded symbolic check under a virtual clock: symbolic sequences of lifecycle operations (start, send of 5 event kinds, stop, snapshot->restore, advance time) on a lifecycle machine with an after timer, a delayed self-send, an invoked service, a failing service and a spawned child that owns a heartbeat timer: status only moves along the lifecycle automaton; start() idempotent while running/done/error, raises on a stopped interpreter, resumes a restored one; send() outside 'running' changes and queues nothing; stop() idempotent in every status - also with an event still queued (unsettled send right before stop) - and afterwards no timer/service/delayed-send task or thread, no registry entry and no running descendant actor remains and 100 ms of virtual time produce no activity. Both engines. Operation HALF: a transition that aborts after its first parallel region armed a timer; stop() must release it.",
        "note": "Trusts CrossHair/z3 and the virtual-time stubs; census = asyncio tasks of the virtual loop / pending virtual threads / interpreter registries, not OS threads. Sequences of 3-4 (quick) or 3-5 (thorough) operations; operations are sequential (no stop() from another thread mid-macrostep).",
        "design": "DESIGN.md section 4 C14",
    },
    "C10": {
        "text": "Bounded symbolic check: one event from every stable configuration of a completion machine (3-region parallel state with history child, nested compound with its own onDone, targetless parallel onDone; also a variant with prefix-named regions) and symbolic event sequences from start(): onDone fires exactly when the independently recomputed doneness rises, never while a region is not final, done data = final state's output; top-level final: status done once, on_done once, machine-level output precedence (4 variants incl. falsy), later sends are no-ops, stop() still works; a final state nested below the root (1-2 levels, or in every region) without onDone ancestors does not complete the machine; an id-less invoke on a compound with onDone never triggers that onDone; one event / one batch entering two top-level final states completes the machine once (on_done hook once, output not overwritten). Both engines. same_key_parallel: three parallel states sharing one local key; each onDone fires exactly when its own doneness rises.",
        "note": "Trusts CrossHair/z3 and done_ref in harness/c10.py. One fixed machine family (DM, DM2, TOP0-3), sequences <= 3 (quick) / 4; release of timers/services/actors by stop() after completion is C14's subject.",
        "design": "DESIGN.md section 4 C10",
    },
    "C11": {
        "text": "Bounded symbolic check: a history-targeting transition taken from outside the history node's parent, from every publicly reachable (configuration, recorded history) pair (never visited where reachable / any last sub-configuration), optionally through a snapshot round trip, on both engines, activates exactly the reference sub-configuration (shallow: recorded child + default descent; deep: recorded leaves; unvisited: default target else normal entry) and enters each restored state exactly once. Skeleton CUR17 adds never-visited history states whose default targets are spelled dot-relative, dotted and absolute next to same-named states one level up.",
        "note": "Trusts CrossHair/z3, model.history_ref/complete_config, the native reachability exploration that supplies the pre-states (it runs the real _record_history). Skeletons: curated CUR4/5/9/12/13 + generated trees with history nodes. History targets taken while the parent is active are excluded (statement leaves them open).",
        "design": "DESIGN.md section 4 C11",
    },
    "C18": {
        "text": "Bounded symbolic check: re-spellings of a canonical config (transition string/object/list forms, always vs '' vs both, cond vs guard, action string/list/object, '100' vs 100, omitted initial; all combinations within feature groups) parse to the same deep fingerprint and trace; ANY target string (symbolic, bounded length) that the resolver maps from the source to the same node leads both engines to the same configuration; resolve_target_state is total (node of the machine or StateNotFoundError); unresolvable dotted/#-targets raise StateNotFoundError and change nothing; every single-point corruption (102 JSON subtrees x 12 replacements of another JSON type incl. the falsy ones; a wrong-typed target / guard / cond / src / initial must be rejected at creation) of a feature-rich config 7 configs with duplicate or ambiguous ids are rejected; and 12 top-level forms are accepted consistently or rejected with an XStateMachineError - never a raw TypeError/AttributeError/KeyError/ValueError.",
        "note": "Trusts CrossHair/z3 and the fingerprint in harness/c18.py. Corrupted configs are concrete after the symbolic (position, replacement) choice and are parsed/run natively inside the path. The 'silently something else' clause is checked for unresolvable targets, for wrong-typed target/guard/cond/src/initial values and for ambiguous ids. One known finding (a custom id equal to another state's path id is accepted). Logic auto-discovery (LogicLoader) on malformed configs is C19's side.",
        "design": "DESIGN.md section 4 C18",
    },
    "C15": {
        "text": "Bounded symbolic check under a virtual clock: symbolic sequences of 19 actor operations (4 spawn forms incl. id re-use, generated ids and a non-blocking spawn; sendTo with a symbolic addressing form out of 8; two delayed sends with ids; cancel; stopChild; forwardTo; child->parent sendParent / id-less delayed sendParent / escalate; grandchild spawn with its own systemId and a grandchild->parent reply addressed by systemId; child completion; time; stop) on a parent machine with children and a grandchild, both engines: after every operation the children map and the system registry equal a reference registry, every message is delivered exactly once to exactly the actor the documented lookup order of _resolve_actor_target names (or nobody when unresolvable / ambiguous / stopped), in sending order per receiver; cancel removes that send only; after stopChild / stop() no descendant is running, registered or ticking and the parent hears nothing from stopped children. Quick items that send by bare service key, change the population of that service's children (spawn / stop / finish) and send again.",
        "note": "Trusts CrossHair/z3, the reference registry in harness/c15.py and the virtual-time stubs (sync polling runner = baton-passing coroutine on an OS thread). One machine family (PM/kid/gkid), sequences of 3-4 (quick) or 4-5 (thorough) operations, depth 2, fan-out <= 4. Under-specified cases (service-key fallback with several explicit-id children; finished child) are accepted either way.",
        "design": "DESIGN.md section 4 C15",
    },
    "C16": {
        "text": "Bounded symbolic check: the determinism machine DT (3-region parallel state whose regions all have children named idle/busy, a nested compound, deep and shallow history of the parallel state, re-entry, region-local and broadcast events, context updates) is run on a symbolic event sequence under a symbolic hash layout - the hash values of a group of K StateNodes are permuted by a symbolic Lehmer code, which permutes the iteration order of every set[StateNode] the engine holds - on both engines; the full trace (ordered entry/exit/transition actions with event types, configuration and context after every event) must equal the identity-layout sync trace, so neither layout nor engine is observable. In addition the machine is run in child processes under a solver-chosen PYTHONHASHSEED (1..16 quick / 1..64 thorough) with natural address hashing on both engines and the pure transition() API: traces equal across seeds and across the three APIs. run_isolation: two consecutive in-process runs of a machine whose context comes from a factory sharing mutable values between calls (5 context forms, symbolic engines and events) yield equal traces.",
        "note": "Trusts CrossHair/z3 and the hash-pinning stub (vf/env.py): distinct small ints below the table size make CPython's set iteration ascending in hash, so a permutation of the ints is a permutation of iteration order; address-based hashing of a real run is one such layout. One machine (15 nodes), sequences of 3 (quick) / 4 events, groups of K=4 (quick) / 4-5 nodes permuted at a time. The PYTHONHASHSEED part is a sample of seed values run natively (a process boundary cannot be traced). Generated-id independence is outside.",
        "design": "DESIGN.md section 4 C16",
    },
    "C17": {
        "text": "Bounded symbolic check of the whole generator: the solver chooses the features that assemble a machine JSON (C19 description family x guard form out of 9 x invoke form out of 6 x parameterised actions x an unsupported key at 3 depths x 8 hostile names at 5 positions), the template (all five), async mode and file count; for each choice the real CLI main() runs in-process on a scratch directory. Exit != 0 implies nothing written; exit 0 implies valid Python that imports without output, without executing any JSON string (injection canary) and, for the pythonic templates, builds a machine whose deep fingerprint (guards with full structure and params, actions with params, invoke id/src/input/handlers, delays, tags, meta, context, resolved targets) and 5 traces equal create_machine(json); for the JSON-loading templates the generated logic binds every referenced name; an unrepresentable key is refused; regeneration is byte-identical and --check exits 0. The same oracle (without traces) is applied to each of the 104 Stately exports shipped in tests/tests_cli/stately_machines x 5 templates x 4 modes (codegen_corpus, export index symbolic). Candidate lists mixing object and shorthand-string members; regen_hashseed: regeneration in child processes under solver-chosen PYTHONHASHSEED values (names differing only in letter case) is byte-identical and --check clean.",
        "note": "Trusts CrossHair/z3 for the exhaustive enumeration of the choice space; the generator itself runs natively on the concrete JSON (argparse, file system and black cannot be traced) - this is the weakest use of the solver in this suite and is stated in DESIGN.md. The CLI's own verifier is not trusted. Multi-machine (parent/child) generation is outside. One known finding (JSON-loading templates cannot bind names that are not lowerCamel/snake identifiers; 46 of the 104 exports are affected). regen_hashseed samples seeds 1..4 (quick) / 1..12 (thorough) against seed 0 in child processes.",
        "design": "DESIGN.md section 4 C17",
    },
    "C19": {
        "text": "Bounded symbolic check: (pythonic_equiv) a neutral machine description with 12 symbolic feature toggles (flat / nested with re-used state name / nested / parallel; entry-exit lists; 6 transition forms; two candidates per event; after; always; invoke; compound onDone; tags+meta; history; root properties incl. on AND always; context override) denoted as hand-written JSON, build_machine objects, MachineBuilder calls and a StateMachine subclass: deep fingerprint and 5 traces of each Python style equal create_machine(json), and a second build from the same definition objects after the first machine ran equals a fresh machine. (discovery) config whose action/guard/service references are chosen symbolically from pools with both spellings, built-ins, spawn_ directives, composite guards nested 3 deep, stateIn; provider instance or module offering a symbolic subset in snake or camel spelling: creation succeeds iff every referenced user name is offered, then all are bound and running never raises ImplementationMissingError. (precedence) a user action named log/assign/raise/sendTo supplied via MachineLogic, a MachineLogic subclass or discovery runs instead of the built-in. (rebuild_independence) State objects shared by two build_machine() calls with different transition lists: each build equals its own denotation and the user's State/context objects are never modified. (subclass_logic) MachineLogic subclass chains of depth 1-3 with the defining level of each callable symbolic: everything is registered and the most derived definition runs. (camel_map) both copies of _snake_to_camel agree on every symbolic string and equal the reference on plain snake_case.",
        "note": "Trusts CrossHair/z3, the hand-written JSON denotation in harness/c19.py and c18.fingerprint. Each pythonic_equiv item varies 2-4 toggles exhaustively with the others at a baseline; transition targets are siblings of their source. One known finding is listed (discovery ignores user implementations named like a built-in).",
        "design": "DESIGN.md section 4 C19",
    },
    "C20": {
        "text": "Bounded symbolic check: BaseInterpreter._matching_descriptors on 2-3 symbolic (arbitrary unicode) keys and a symbolic event type equals the reference ordering exact > partial by decreasing prefix > '*', engine-internal events exact only; and send() of a symbolic event type on a two-level machine with symbolic guard outcomes and null entries fires exactly the reference nominee on both engines. descriptor_smt: the AST of _matching_descriptors (read from the working tree at run time) is executed on z3 string terms (vf/ast2smt.py, z3 with the cvc5 binary as second solver); on every path the returned list is checked against the matching clause written as a formula: holds for keys and event types of ANY length, for 2 and for 3 keys.",
        "note": "Trusts CrossHair/z3 and the reference descriptor_ref/_select_ref; for descriptor_smt additionally the AST interpreter vf/ast2smt.py (its models are replayed on the real function with a real dict) and cvc5 1.0.3 where z3 answers unknown. CrossHair items: string lengths bounded (L in evidence); a duck-typed linear-scan mapping replaces dict for symbolic keys; the engine-level machine is one fixed two-level shape with 7 null-entry variants. descriptor_smt: bound = number of keys (<= 3); a rewrite of the function outside the interpreter's Python subset makes the item INCONCLUSIVE, not a verdict.",
        "tech": TECH + "; obligation descriptor_smt: AST-to-SMT symbolic execution of the function on unbounded z3 strings, one solver query per branch and per return (z3 5.1, cvc5 1.0.3 on z3's unknowns), models replayed natively",
        "design": "DESIGN.md section 4 C20",
    },
}

NOT_YET = {}


def main() -> int:
    props = [json.loads(l)["id"] for l in open(os.path.join(ROOT, "properties.jsonl"))]
    checks = []
    na = []
    for pid in props:
        c = CLAIMS.get(pid)
        if c is None:
            na.append({"property_id": pid, "reason": NOT_YET.get(pid, "harness not built yet in this round; no claim is made for this property")})
            continue
        checks.append({
            "property_id": pid,
            "quick_cmd": f"bin/check {pid} --tier quick",
            "thorough_cmd": f"bin/check {pid} --tier thorough",
            "evidence_file": f"/verif/evidence/{pid}.json",
            "replay_cmd_template": f"bin/check {pid} --replay {{path}}",
            "engine": "crosshair-z3",
            "level_claimed": {"category": "other", "text": c["text"], "design_ref": c["design"]},
            "level_note": c["note"],
            "technique": c.get("tech", TECH),
        })
    man = {
        "version": 1,
        "setup_cmd": "sh bin/setup",
        "hooks": {
            "guard": "XSTATE_VERIF",
            "enable": "no source hooks are needed: every stub is installed from the harness by replacing module attributes at run time (vf/env.py); XSTATE_VERIF is unused by the library",
            "baseline_off_cmd": "cd /repo && /venv/bin/python -m pytest -ra -q -p no:cacheprovider --timeout=900 --continue-on-collection-errors",
            "source_commits": [],
            "add_only": True,
        },
        "engines": [{
            "name": "crosshair-z3",
            "path": "/verif/vf/engine.py",
            "serves_properties": [c["property_id"] for c in checks],
            "kind_free_text": "CrossHair 0.0.110 symbolic execution of /repo's working tree through its Python API, z3 5.1 back end; runner shards obligations over 16 processes; counterexamples replayed natively (vf/replay.py)",
        }, {
            "name": "ast2smt",
            "path": "/verif/vf/ast2smt.py",
            "serves_properties": ["C01", "C20"],
            "kind_free_text": "symbolic interpreter from the Python AST of a leaf kernel (inspect.getsource on /repo's working tree) to z3 terms over unbounded strings; DFS over solver-decided branches; z3 5.1 Python API first, cvc5 1.0.3 binary on the same SMT-LIB text when z3 answers unknown; models replayed natively",
        }],
        "checks": checks,
        "notes": "Exit codes of bin/check: 0 = nothing refuted beyond known findings (KNOWN-FINDING lines), 1 = reproducing counterexample (VIOLATION line), 3 = harness error. Genuine defects repaired in /repo by 'fix:' commits are listed in known_findings.json ('fixed').",
        "not_applicable": na,
    }
    path = os.path.join(ROOT, "MANIFEST.json")
    with open(path, "w") as f:
        json.dump(man, f, indent=1)
    try:
        import jsonschema  # type: ignore

        jsonschema.validate(man, json.load(open("/root/.vp/MANIFEST.schema.json")))
        print("MANIFEST valid;", len(checks), "claimed,", len(na), "not applicable")
    except ImportError:
        print("written (jsonschema not available here)")
    return 0


if __name__ == "__main__":
    sys.exit(main())
