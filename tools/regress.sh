#!/bin/sh
# Regression sweep: applies every recorded seeded change of the given properties (default: all) to a scratch worktree and runs
# the quick check of the property recorded as catching it (tools/seed_table.json), stopping at the first reproduced
# counterexample.  usage: tools/regress.sh [Cxx ...]   -> one line per seed in tools/regression_last.txt
cd "$(dirname "$0")/.." || exit 2
OUT=tools/regression_last.txt
[ $# -gt 0 ] || : > "$OUT"
/venv/bin/python - "$@" <<'PY' > /tmp/regress_list.txt
import json, sys
tab = json.load(open("tools/seed_table.json"))
props = set(sys.argv[1:])
for sid in sorted(tab):
    chk = (tab[sid][0] or "").split(",")[0].strip()
    if not chk:
        print(sid, "-"); continue
    if props and sid[:3] not in props and chk not in props:
        continue
    print(sid, chk)
PY
while read sid chk; do
  if [ "$chk" = "-" ]; then echo "$sid NOT-A-VIOLATION (see meta.json)" >> "$OUT"; continue; fi
  r=$(tools/seedcheck.sh "seeded/$sid" "$chk" 2>&1)
  if echo "$r" | grep -q "patch does not apply"; then echo "$sid OBSOLETE (patch does not apply to the current tree; see meta.json)" >> "$OUT";
  elif echo "$r" | grep -q "^VIOLATION"; then echo "$sid CAUGHT by $chk" >> "$OUT";
  else echo "$sid MISSED by $chk: $(echo "$r" | grep "^SUMMARY" | cut -c1-160)" >> "$OUT"; fi
done < /tmp/regress_list.txt
