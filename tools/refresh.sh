#!/bin/sh
# Runs every claimed check of one tier on /repo's working tree, refreshes evidence/*.json and tools/timings.json.
# usage: tools/refresh.sh quick|thorough [Cxx ...]
cd "$(dirname "$0")/.." || exit 2
TIER=${1:-quick}; shift
PROPS=${*:-C01 C02 C03 C04 C05 C06 C07 C08 C09 C10 C11 C12 C13 C14 C15 C16 C17 C18 C19 C20}
mkdir -p .refresh
for p in $PROPS; do
  bin/check "$p" --tier "$TIER" ${JOBS:+--jobs $JOBS} > ".refresh/$p.$TIER.out" 2>&1
  echo "rc=$?" >> ".refresh/$p.$TIER.out"
  grep -h "^SUMMARY\|^VIOLATION\|^HARNESS-ERROR\|^INCONCLUSIVE\|^KNOWN-FINDING\|^rc=" ".refresh/$p.$TIER.out" | cut -c1-220
done
.venv/bin/python - "$TIER" $PROPS <<'PY'
import json, os, re, sys
tier = sys.argv[1]; props = sys.argv[2:]
p = "tools/timings.json"
t = json.load(open(p)) if os.path.exists(p) else {}
for pid in props:
    out = open(f".refresh/{pid}.{tier}.out").read()
    m = re.search(r"SUMMARY property=\S+ tier=\S+ obligations=(\d+) discharged=(\d+) inconclusive=(\d+) vacuous=(\d+) refuted=(\d+) paths=(\d+) z3_queries=(\d+) solver_s=([\d.]+) wall_s=(\d+) known_findings=(\d+)", out)
    if not m:
        continue
    t.setdefault(pid, {})[tier] = {"items": int(m.group(1)), "discharged": int(m.group(2)), "inconclusive": int(m.group(3)),
                                   "paths": int(m.group(6)), "z3_queries": int(m.group(7)), "wall_s": int(m.group(9)), "known_findings": int(m.group(10))}
json.dump(t, open(p, "w"), indent=1, sort_keys=True)
PY
