"""Native replay of a counterexample file (no CrossHair): runs the same
harness function on the concrete arguments and evaluates the postcondition.
Exit 1 = the violation reproduces; 0 = it does not; 3 = harness error."""
from __future__ import annotations

import importlib
import json
import os
import sys
import traceback

ROOT = os.path.dirname(os.path.dirname(os.path.abspath(__file__)))


def main() -> int:
    sys.path.insert(0, ROOT)
    sys.setrecursionlimit(10000)
    body = json.load(open(sys.argv[1]))
    from vf import env, kf

    env.install()
    mod = importlib.import_module(f"harness.{body['harness']}")
    kf.HARNESS = mod
    kf.MODE = ("all", None)
    mod.set_params(body["params"])
    fn = mod.OBLIGATIONS[body["obligation"]]
    args = body["args"] or {}
    mod.EXPLAIN = []
    try:
        ok = fn(**args)
    except kf.HarnessLimit as e:
        print(f"HARNESS-LIMIT: {e}")
        return 3
    except BaseException as e:  # an escaping exception is a failing run ...
        tb = traceback.extract_tb(e.__traceback__)
        inner = tb[-1].filename if tb else ""
        # (exceptions the harness INJECTS on purpose - faulting actions, hooks, services - are raised in harness files too, so
        #  only the kinds that can only be programming errors of the harness itself are classified this way)
        if (isinstance(e, (NameError, ImportError, SyntaxError)) and os.path.abspath(inner).startswith(ROOT + os.sep)
                and ".venv" not in inner):
            # ... unless it was raised by the checking machinery itself (a bug in a harness is not a finding)
            print(f"HARNESS-ERROR: {body['obligation']}({args}) raised {type(e).__name__}: {e} inside the harness ({inner}:{tb[-1].lineno})")
            print(traceback.format_exc()[-1200:])
            return 3
        print(f"REPRODUCED: {body['obligation']}({args}) raised {type(e).__name__}: {e}")
        print(traceback.format_exc()[-1200:])
        return 1
    # optional second opinion through the public API only
    pub = getattr(mod, "PUBLIC_REPLAY", {}).get(body["obligation"])
    if not ok and pub is not None:
        try:
            verdict, detail = pub(**args)
        except BaseException as e:
            print(f"public-API replay crashed: {type(e).__name__}: {e}")
            print(traceback.format_exc()[-800:])
            return 3
        if verdict == "unreachable":
            print(f"NOT-REPRODUCED via public API (constructed pre-state is not reachable): {detail}")
            return 0
        if verdict == "holds":
            print(f"NOT-REPRODUCED via public API: {detail}")
            return 0
        print(f"public-API replay: {detail}")
    if ok:
        print(f"not reproduced: {body['obligation']}({args}) satisfies the postcondition natively")
        return 0
    why = "; ".join(str(x) for x in getattr(mod, "EXPLAIN", [])[-4:])
    print(f"REPRODUCED: {body['obligation']}({args}) violates the postcondition natively. {why}")
    return 1


if __name__ == "__main__":
    try:
        sys.exit(main())
    except SystemExit:
        raise
    except BaseException:
        traceback.print_exc()
        sys.exit(3)
