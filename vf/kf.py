"""Known-findings gate.

``/verif/known_findings.json`` is committed and read-only at run time. Each
finding names a predicate (a function ``kf_<name>(**args)`` in the harness
module) that delimits the failing class over the obligation's own arguments.
The runner analyses every affected obligation twice:

  mode ("exclude", [preds])  ob AND NOT any(pred)   must be *confirmed*
  mode ("only", pred)        ob AND pred            expected *refuted* ->
                                                     KNOWN-FINDING line

so a different violation of the same property is still a VIOLATION.
"""
from __future__ import annotations

import json
import os
from typing import Any, Dict, List, Tuple

ROOT = os.path.dirname(os.path.dirname(os.path.abspath(__file__)))
PATH = os.path.join(ROOT, "known_findings.json")

MODE: Tuple[str, Any] = ("all", None)
HARNESS: Any = None  # module object of the current harness
TWIN = False         # reachability twin: verdict() returns False when reached
HITS = {"oracle": 0, "nontrivial": 0}


def load() -> Dict[str, Any]:
    if not os.path.exists(PATH):
        return {"findings": [], "fixed": []}
    with open(PATH) as f:
        return json.load(f)


def findings_for(prop: str, ob: str) -> List[Dict[str, Any]]:
    return [f for f in load().get("findings", []) if f["property"] == prop and f["obligation"] == ob]


def gate(ob: str, **args: Any) -> bool:
    """Precondition helper used as ``pre: gate('ob', a=a, ...)``."""
    mode, what = MODE
    if mode == "all":
        return True
    if mode == "exclude":
        for pred in what:
            if getattr(HARNESS, pred)(**args):
                return False
        return True
    if mode == "only":
        return bool(getattr(HARNESS, what)(**args))
    return True


class HarnessLimit(BaseException):
    """Raised by an environment stub when the code under test uses a facility
    the stub does not model (e.g. threading.Timer). Never a property violation:
    the replay maps it to the harness-error exit code."""


def gate_native(ob: str, vec: Dict[str, Any]) -> bool:
    try:
        return bool(gate(ob, **vec))
    except Exception:
        return True


def verdict(ok: Any, nontrivial: bool = True) -> bool:
    """Every obligation returns through here: counts oracle evaluations and
    implements the reachability twin."""
    HITS["oracle"] += 1
    if nontrivial:
        HITS["nontrivial"] += 1
    if TWIN:
        return False
    return bool(ok)
