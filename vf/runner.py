"""Shards a property's obligations over worker processes, collects verdicts,
replays counterexamples natively, applies the known-findings split, writes
evidence, prints VIOLATION / KNOWN-FINDING / INCONCLUSIVE lines.

Exit codes: 0 nothing refuted beyond known findings; 1 a reproducing unknown
counterexample (VIOLATION line printed); 3 harness error (non-reproducing
counterexample, analysis crash) - never used to signal a property violation.
"""
from __future__ import annotations

import argparse
import hashlib
import importlib
import json
import multiprocessing as mp
import os
import queue
import subprocess
import sys
import time
import traceback
from typing import Any, Dict, List, Optional, Tuple

ROOT = os.path.dirname(os.path.dirname(os.path.abspath(__file__)))
EVID = os.environ.get("VF_EVIDENCE_DIR") or os.path.join(ROOT, "evidence")   # (override: runs against a mutated scratch tree must not touch the committed evidence)
REPLAYS = os.path.join(ROOT, "replays")


# ---------------------------------------------------------------------------
# worker side
# ---------------------------------------------------------------------------

def _prepare(harness_name: str) -> Any:
    from vf import env, kf

    env.install()
    mod = importlib.import_module(f"harness.{harness_name}")
    kf.HARNESS = mod
    return mod


def _repo_functions(mod: Any, ob: str, args: Dict[str, Any]) -> List[str]:
    """Native run of the obligation under sys.setprofile: the library
    functions that the symbolic execution enters (the 'functions encoded')."""
    seen = set()

    def prof(frame, event, arg):  # type: ignore[no-untyped-def]
        if event == "call":
            fn = frame.f_code.co_filename
            if "/xstate_statemachine/" in fn:
                seen.add(f"{os.path.basename(fn)}:{frame.f_code.co_qualname}")

    fn = mod.OBLIGATIONS[ob]
    sys.setprofile(prof)
    try:
        fn(**args)
    except BaseException:
        pass
    finally:
        sys.setprofile(None)
    return sorted(seen)


def _native_probes(mod: Any, fn: Any, ob: str, out: Dict[str, Any]) -> None:
    """Safety net for an INCONCLUSIVE symbolic analysis (tree not exhausted,
    every path aborted inside CrossHair, ...): run the obligation natively on
    a few concrete argument vectors (all-zero defaults + the harness's PROBES).
    A probe can only turn 'inconclusive' into a counterexample (which is then
    replayed in a fresh process like any other); it never discharges anything."""
    import inspect

    from vf import kf

    sig = inspect.signature(fn)
    zero: Dict[str, Any] = {}
    for name, prm in sig.parameters.items():
        ann = prm.annotation
        zero[name] = False if ann in (bool, "bool") else ("" if ann in (str, "str") else 0)
    vectors = [zero] + [dict(zero, **p) for p in getattr(mod, "PROBES", {}).get(ob, [])]
    for vec in vectors:
        try:
            if not kf.gate_native(ob, vec):
                continue
            ok = fn(**vec)
        except BaseException as e:  # noqa
            if isinstance(e, (KeyboardInterrupt, SystemExit)):
                raise
            ok = False
            out["message"] = (out.get("message", "") + f" | native probe raised {type(e).__name__}: {e}")[:900]
        if not ok:
            out["symbolic_verdict"] = out.get("verdict")
            out["verdict"] = "refuted"
            out["cex"] = vec
            out["message"] = (out.get("message", "") + " | counterexample from native probe after inconclusive symbolic analysis")[:900]
            return


def run_item(harness_name: str, item: Dict[str, Any]) -> Dict[str, Any]:
    """Runs one work item (twin first, then the real analysis)."""
    from vf import engine, kf

    mod = _prepare(harness_name)
    ob = item["ob"]
    fn = mod.OBLIGATIONS[ob]
    mod.set_params(item["params"])
    kf.MODE = tuple(item.get("mode", ("all", None)))  # type: ignore[assignment]
    out: Dict[str, Any] = {"item": item, "ob": ob}
    # reachability twin
    kf.TWIN = True
    kf.HITS["oracle"] = kf.HITS["nontrivial"] = 0
    analyse = getattr(fn, "smt_runner", None) or engine.run_obligation   # obligations decided by a direct SMT encoding (vf/ast2smt.py) bring their own driver
    tw = analyse(fn, timeout=item.get("twin_timeout", 20.0), per_path_timeout=10.0)
    kf.TWIN = False
    out["twin"] = {"verdict": tw["verdict"], "paths": tw["paths"], "cex": tw["cex"], "message": tw["message"][:300]}
    if tw["verdict"] != "refuted":
        # vacuous (or, for an 'only' KF class, simply not applicable to this item)
        out.update({"verdict": "vacuous", "paths": tw["paths"], "z3_queries": tw["z3_queries"],
                    "solver_s": tw["solver_s"], "wall_s": tw["wall_s"], "message": tw["message"][:500],
                    "oracle_hits": 0, "nontrivial": 0, "cex": None})
        if kf.MODE[0] != "only":
            _native_probes(mod, fn, ob, out)
        return out
    kf.HITS["oracle"] = kf.HITS["nontrivial"] = 0
    r = analyse(fn, timeout=item.get("timeout", 60.0), per_path_timeout=item.get("path_timeout", 20.0))
    out.update(r)
    out["oracle_hits"] = kf.HITS["oracle"]
    out["nontrivial"] = kf.HITS["nontrivial"]
    if out.get("verdict") not in ("confirmed", "refuted"):
        _native_probes(mod, fn, ob, out)
    if item.get("want_functions") and tw["cex"] is not None:
        try:
            out["functions"] = _repo_functions(mod, ob, tw["cex"])
        except BaseException:
            out["functions"] = []
    return out


def _worker(harness_name: str, tasks: Any, results: Any) -> None:
    sys.setrecursionlimit(10000)
    parent = os.getppid()
    try:   # die with the parent (a check that is killed from outside must not leave workers behind)
        import ctypes
        import signal

        ctypes.CDLL("libc.so.6", use_errno=True).prctl(1, signal.SIGKILL)   # PR_SET_PDEATHSIG
    except Exception:  # noqa: BLE001
        pass
    while True:
        if os.getppid() != parent:
            os._exit(0)
        try:
            idx, item = tasks.get(timeout=1.0)
        except queue.Empty:
            return
        if idx is None:
            return
        results.put(("start", idx, os.getpid(), time.time()))
        try:
            res = run_item(harness_name, item)
        except BaseException as e:  # noqa
            if isinstance(e, KeyboardInterrupt):
                return
            res = {"item": item, "ob": item["ob"], "verdict": "error", "message": traceback.format_exc()[-1500:],
                   "paths": 0, "z3_queries": 0, "solver_s": 0.0, "wall_s": 0.0, "oracle_hits": 0, "nontrivial": 0, "cex": None}
        results.put(("done", idx, os.getpid(), res))


# ---------------------------------------------------------------------------
# native replay (fresh process)
# ---------------------------------------------------------------------------

def replay_file(path: str) -> Tuple[bool, str]:
    """Returns (reproduced, detail)."""
    p = subprocess.run([sys.executable, "-m", "vf.replay", path], cwd=ROOT, capture_output=True, text=True, timeout=600)
    detail = (p.stdout + p.stderr).strip()[-800:]
    if p.returncode == 1:
        return True, detail
    if p.returncode == 0:
        return False, detail
    return False, f"replay harness error rc={p.returncode}: {detail}"


def write_replay(prop: str, harness_name: str, res: Dict[str, Any]) -> str:
    os.makedirs(REPLAYS, exist_ok=True)
    body = {
        "property": prop,
        "harness": harness_name,
        "obligation": res["ob"],
        "params": res["item"]["params"],
        "mode": list(res["item"].get("mode", ("all", None))),
        "args": res.get("cex"),
        "message": res.get("message", "")[:600],
    }
    h = hashlib.sha1(json.dumps(body, sort_keys=True, default=str).encode()).hexdigest()[:10]
    path = os.path.join(REPLAYS, f"{prop}-{res['ob']}-{h}.json")
    with open(path, "w") as f:
        json.dump(body, f, indent=1, default=str)
    return path


# ---------------------------------------------------------------------------
# parent side
# ---------------------------------------------------------------------------

def expand_items(prop: str, mod: Any, items: List[Dict[str, Any]]) -> List[Dict[str, Any]]:
    from vf import kf

    out: List[Dict[str, Any]] = []
    first_of_ob = set()
    for it in items:
        fs = [f for f in kf.findings_for(prop, it["ob"]) if _kf_applies(mod, f, it)]
        base = dict(it)
        if it["ob"] not in first_of_ob:
            base["want_functions"] = True
            first_of_ob.add(it["ob"])
        if not fs:
            base["mode"] = ("all", None)
            out.append(base)
            continue
        base["mode"] = ("exclude", [f["predicate"] for f in fs])
        out.append(base)
        for f in fs:
            k = dict(it)
            k["mode"] = ("only", f["predicate"])
            k["kf_id"] = f["id"]
            k["kf_what"] = f.get("what", "")
            k["timeout"] = min(it.get("timeout", 60.0), f.get("timeout", 30.0))
            out.append(k)
    return out


def _kf_applies(mod: Any, f: Dict[str, Any], it: Dict[str, Any]) -> bool:
    ap = f.get("applies")
    if not ap:
        return True
    fn = getattr(mod, ap, None)
    if fn is None:
        return True
    try:
        return bool(fn(it["params"]))
    except Exception:
        return True


def run_property(prop: str, harness_name: str, tier: str, seed: int, jobs: int, only: Optional[str] = None,
                 max_items: Optional[int] = None) -> int:
    t_start = time.time()
    sys.path.insert(0, ROOT)
    from vf import env, kf

    mod = importlib.import_module(f"harness.{harness_name}")
    items = mod.items(tier, seed)
    if only:
        items = [i for i in items if i["ob"] == only or i.get("label", "").startswith(only)]
    if max_items:
        items = items[:max_items]
    items = expand_items(prop, mod, items)
    # longest first for better packing
    order = sorted(range(len(items)), key=lambda i: -items[i].get("timeout", 60.0))

    # build skeletons / reachability tables once, natively, before forking:
    # the workers inherit them
    prep = getattr(mod, "set_params", None)
    if prep is not None and getattr(mod, "PREPARE_IN_PARENT", True):
        env.install()
        for it in items:
            try:
                prep(it["params"])
            except Exception:
                pass

    ctx = mp.get_context("fork")
    tasks: Any = ctx.Queue()
    results: Any = ctx.Queue()
    for i in order:
        tasks.put((i, items[i]))
    nworkers = max(1, min(jobs, len(items)))
    procs: Dict[int, Any] = {}

    def spawn() -> None:
        p = ctx.Process(target=_worker, args=(harness_name, tasks, results), daemon=True)
        p.start()
        procs[p.pid] = p

    for _ in range(nworkers):
        spawn()

    done: Dict[int, Dict[str, Any]] = {}
    running: Dict[int, Tuple[int, float]] = {}  # pid -> (idx, start)
    budget = getattr(mod, "WALL_BUDGET", {}).get(tier, 3600.0)
    if tier == "thorough":
        budget = min(budget, 1500.0)     # every thorough command ends within ~25 minutes; what did not run is INCONCLUSIVE
    if os.environ.get("VF_WALL_BUDGET"):
        budget = float(os.environ["VF_WALL_BUDGET"])
    while len(done) < len(items):
        try:
            msg = results.get(timeout=1.0)
        except queue.Empty:
            msg = None
        now = time.time()
        if msg is not None:
            kind, idx, pid, payload = msg
            if kind == "start":
                running[pid] = (idx, payload)
            else:
                done[idx] = payload
                running.pop(pid, None)
                if os.environ.get("VF_STOP_ON_REFUTED") and payload.get("verdict") == "refuted" and items[idx].get("mode", ("all",))[0] != "only":
                    # (used by the seeded-change regression only: the first counterexample is enough)
                    for pid2, p2 in procs.items():
                        if p2.is_alive():
                            p2.terminate()
                    for i in range(len(items)):
                        if i not in done:
                            done[i] = {"item": items[i], "ob": items[i]["ob"], "verdict": "unknown", "message": "not run: stopped at the first counterexample",
                                       "paths": 0, "z3_queries": 0, "solver_s": 0.0, "wall_s": 0.0, "oracle_hits": 0, "nontrivial": 0, "cex": None}
                    break
        # hard timeouts / dead workers
        for pid, (idx, st) in list(running.items()):
            hard = items[idx].get("timeout", 60.0) * 2.5 + 60.0
            p = procs.get(pid)
            dead = p is not None and not p.is_alive()
            if now - st > hard or dead:
                if p is not None and p.is_alive():
                    p.terminate()
                running.pop(pid, None)
                procs.pop(pid, None)
                if idx not in done:
                    done[idx] = {"item": items[idx], "ob": items[idx]["ob"], "verdict": "unknown",
                                 "message": "worker killed (hard timeout)" if not dead else "worker died",
                                 "paths": 0, "z3_queries": 0, "solver_s": 0.0, "wall_s": now - st,
                                 "oracle_hits": 0, "nontrivial": 0, "cex": None}
                spawn()
        if now - t_start > budget:
            for pid, p in procs.items():
                if p.is_alive():
                    p.terminate()
            for i in range(len(items)):
                if i not in done:
                    done[i] = {"item": items[i], "ob": items[i]["ob"], "verdict": "unknown",
                               "message": "not run: wall budget exhausted", "paths": 0, "z3_queries": 0,
                               "solver_s": 0.0, "wall_s": 0.0, "oracle_hits": 0, "nontrivial": 0, "cex": None}
            break
        if not any(p.is_alive() for p in procs.values()) and len(done) < len(items) and results.empty():
            # all workers exited although tasks remain (should not happen)
            spawn()
    for p in procs.values():
        if p.is_alive():
            p.terminate()

    # the task queue may still hold items nobody will read (budget exhausted, workers terminated): without this the
    # queue's feeder thread blocks interpreter exit forever on a full pipe
    for q in (tasks, results):
        try:
            q.cancel_join_thread()
            q.close()
        except Exception:  # noqa: BLE001
            pass
    return summarise(prop, harness_name, mod, tier, seed, items, done, time.time() - t_start)


def summarise(prop: str, harness_name: str, mod: Any, tier: str, seed: int, items: List[Dict[str, Any]],
              done: Dict[int, Dict[str, Any]], wall: float) -> int:
    from vf import env

    violations = 0
    harness_errors = 0
    kf_lines: List[str] = []
    inconclusive: List[str] = []
    per_ob: Dict[str, Dict[str, Any]] = {}
    samples: List[Any] = []
    functions: Dict[str, List[str]] = {}
    tot = {"paths": 0, "z3": 0, "solver_s": 0.0, "oracle": 0, "nontrivial": 0, "items": 0, "discharged": 0,
           "inconclusive": 0, "vacuous": 0, "refuted": 0}
    seen_kf = set()
    for i in range(len(items)):
        r = done[i]
        it = items[i]
        mode = it.get("mode", ("all", None))
        ob = r["ob"]
        label = it.get("label", ob)
        po = per_ob.setdefault(ob, {"items": 0, "confirmed": 0, "refuted": 0, "unknown": 0, "vacuous": 0,
                                    "paths": 0, "z3_queries": 0, "solver_s": 0.0, "bound": getattr(mod, "BOUNDS", {}).get(ob, "")})
        tot["paths"] += r.get("paths", 0)
        tot["z3"] += r.get("z3_queries", 0)
        tot["solver_s"] += r.get("solver_s", 0.0)
        tot["oracle"] += r.get("oracle_hits", 0)
        tot["nontrivial"] += r.get("nontrivial", 0)
        po["paths"] += r.get("paths", 0)
        po["z3_queries"] += r.get("z3_queries", 0)
        po["solver_s"] = round(po["solver_s"] + r.get("solver_s", 0.0), 3)
        if r.get("functions"):
            functions[ob] = r["functions"]
        if r.get("twin", {}).get("cex") is not None and len(samples) < 12 and mode[0] != "only":
            samples.append({"obligation": ob, "item": label, "params": _short(it["params"]), "model": r["twin"]["cex"]})
        v = r["verdict"]
        if mode[0] == "only":
            # known-finding class: refuted -> replay -> KNOWN-FINDING line
            if v == "refuted":
                path = write_replay(prop, harness_name, r)
                rep, detail = replay_file(path)
                if rep and it["kf_id"] not in seen_kf:
                    seen_kf.add(it["kf_id"])
                    kf_lines.append(f"KNOWN-FINDING: property={prop} {it['kf_id']}: {it.get('kf_what','')} [witness {label} args={json.dumps(r.get('cex'), default=str)}]")
                try:
                    os.remove(path)
                except OSError:
                    pass
            continue
        tot["items"] += 1
        po["items"] += 1
        if v == "confirmed":
            tot["discharged"] += 1
            po["confirmed"] += 1
        elif v == "refuted":
            po["refuted"] += 1
            tot["refuted"] += 1
            path = write_replay(prop, harness_name, r)
            rep, detail = replay_file(path)
            if rep:
                violations += 1
                print(f"VIOLATION property={prop} replay={path}")
                print(f"  obligation={ob} item={label} args={json.dumps(r.get('cex'), default=str)}")
                print("  " + detail.replace("\n", "\n  ")[:1200])
            else:
                harness_errors += 1
                print(f"HARNESS-ERROR property={prop} obligation={ob} item={label}: counterexample did not reproduce natively: "
                      f"{r.get('message','')[:300]} :: {detail[:400]}")
        elif v == "vacuous":
            tot["vacuous"] += 1
            po["vacuous"] += 1
            inconclusive.append(f"{label}: vacuous ({r.get('message','')[:120]})")
        elif v == "error":
            harness_errors += 1
            po["unknown"] += 1
            print(f"HARNESS-ERROR property={prop} obligation={ob} item={label}: {r.get('message','')[:600]}")
        else:
            tot["inconclusive"] += 1
            po["unknown"] += 1
            inconclusive.append(f"{label}: {v} ({r.get('message','')[:120]})")

    for line in kf_lines:
        print(line)
    for line in inconclusive[:40]:
        print(f"INCONCLUSIVE property={prop} obligation={line}")
    if len(inconclusive) > 40:
        print(f"INCONCLUSIVE ... and {len(inconclusive) - 40} more")

    for ob, po in per_ob.items():
        po["functions_encoded"] = functions.get(ob, [])
    ev = {
        "property_id": prop,
        "tier": tier,
        "seed": seed,
        "level": "other",
        "coverage": {
            "explanation": getattr(mod, "EXPLANATION", "") + " Verdict per obligation is CrossHair's: 'confirmed' = path tree exhausted and z3 "
                           "decided every branch inside the library code (holds for all values within the stated bound); "
                           "counterexamples are replayed natively before being reported.",
            "evaluations": tot["paths"],
            "distinct_nontrivial": tot["nontrivial"],
            "rule": "evaluations = execution paths CrossHair explored (each a distinct class of inputs decided by z3); "
                    "distinct_nontrivial = paths on which the harness reached its oracle on a run that "
                    + getattr(mod, "NONTRIVIAL_RULE", "exercised the property's mechanism") + " (counted by vf.kf.verdict at run time)",
            "obligations": tot["items"],
            "discharged": tot["discharged"],
            "inconclusive": tot["inconclusive"],
            "vacuous": tot["vacuous"],
            "refuted": tot["refuted"],
            "z3_queries": tot["z3"],
            "solver_s": round(tot["solver_s"], 2),
            "oracle_evaluations": tot["oracle"],
            "per_obligation": per_ob,
            "samples": samples or [{"note": "no sample captured"}],
            "known_findings_reported": sorted(seen_kf),
            "inconclusive_items": inconclusive[:60],
            "exhaustive": False,
            "checker_cmd": f"bin/check {prop} --tier {tier}",
            "trusted_base": ["CrossHair 0.0.110 symbolic execution + z3", "CPython 3.12", "vf/model.py reference oracles", "environment stubs listed under assumptions"],
        },
        "assumptions": list(env.ASSUMPTIONS_COMMON) + list(getattr(mod, "ASSUMPTIONS", [])),
        "wall_s": round(wall, 1),
        "violations": violations,
    }
    os.makedirs(EVID, exist_ok=True)
    with open(os.path.join(EVID, f"{prop}.json"), "w") as f:
        json.dump(ev, f, indent=1, default=str)
    print(f"SUMMARY property={prop} tier={tier} obligations={tot['items']} discharged={tot['discharged']} "
          f"inconclusive={tot['inconclusive']} vacuous={tot['vacuous']} refuted={tot['refuted']} paths={tot['paths']} "
          f"z3_queries={tot['z3']} solver_s={tot['solver_s']:.1f} wall_s={wall:.0f} known_findings={len(seen_kf)}")
    if violations:
        return 1
    if harness_errors:
        return 3
    return 0


def _short(p: Any) -> Any:
    s = json.dumps(p, default=str)
    return json.loads(s) if len(s) < 400 else s[:400] + "..."


def main(argv: Optional[List[str]] = None) -> int:
    ap = argparse.ArgumentParser()
    ap.add_argument("prop")
    ap.add_argument("--tier", default=os.environ.get("VERIF_TIER", "quick"))
    ap.add_argument("--replay")
    ap.add_argument("--only")
    ap.add_argument("--max-items", type=int)
    ap.add_argument("--jobs", type=int, default=int(os.environ.get("VERIF_JOBS", "16")))
    a = ap.parse_args(argv)
    seed = int(os.environ.get("VERIF_SEED", "0") or 0)
    prop = a.prop.upper()
    harness_name = prop.lower()
    if a.replay:
        rep, detail = replay_file(a.replay)
        print(detail)
        if rep:
            print(f"VIOLATION property={prop} replay={a.replay}")
            return 1
        return 0
    return run_property(prop, harness_name, a.tier, seed, a.jobs, a.only, a.max_items)


if __name__ == "__main__":
    rc = main()
    sys.stdout.flush()
    sys.stderr.flush()
    os._exit(rc)      # worker processes / queue threads must never keep a finished check alive
