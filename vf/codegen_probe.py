"""Runs the real code-generating CLI (harness.c17.gen, in-process black as in C17) on a machine JSON read from argv in THIS
process and prints {"rc": exit status, "files": {name: text}} as JSON.  Started as a child process with a chosen
PYTHONHASHSEED by harness.c17.regen_hashseed: str hashing - hence the iteration order of every set of names the generator
builds - is whatever this process has."""
from __future__ import annotations

import json
import os
import shutil
import sys

ROOT = os.path.dirname(os.path.dirname(os.path.abspath(__file__)))
sys.path.insert(0, ROOT)


def main() -> int:
    from harness import c17

    cfg = json.loads(sys.argv[1])
    template, fc, am = sys.argv[2], int(sys.argv[3]), (sys.argv[4] if sys.argv[4] != "-" else None)
    c17.set_params({})
    rc, files, _console, d = c17.gen(cfg, template, fc, am)
    res = {"rc": rc, "files": files}
    if rc == 0 and "--check" in sys.argv[5:]:
        rc3, _f, c3, _d = c17.gen(cfg, template, fc, am, extra=("--check",), keep=d)
        res["check_rc"] = rc3
        res["check_out"] = c3[-300:]
    shutil.rmtree(d, ignore_errors=True)
    print(json.dumps(res))
    return 0


if __name__ == "__main__":
    sys.exit(main())
