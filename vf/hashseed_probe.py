"""Prints (JSON) the traces of harness.c16's determinism machine on canned event
sequences for the sync engine, the asyncio engine and the pure API. Run in a
child process with a chosen PYTHONHASHSEED; StateNode hashing is NOT pinned
here, so object addresses and str hashing are whatever this process has."""
from __future__ import annotations

import asyncio
import copy
import json
import logging
import os
import sys

ROOT = os.path.dirname(os.path.dirname(os.path.abspath(__file__)))
sys.path.insert(0, ROOT)


def main() -> int:
    logging.disable(logging.CRITICAL)
    from xstate_statemachine import Interpreter, SyncInterpreter, create_machine
    from xstate_statemachine.helpers import initial_transition, transition

    from harness import c16
    from vf.logic import make_logic

    seqs = json.loads(sys.argv[1])
    out = {"sync": [], "async": [], "pure": []}
    m = create_machine(copy.deepcopy(c16._config()), logic=make_logic(actions={"count": c16._count}))

    def names(rec):
        return [[k, s, getattr(e, "type", None)] for k, s, e in rec]

    for evs in seqs:
        it = SyncInterpreter(m)
        it.__dict__["_rec"] = []
        it.start()
        row = []
        it.__dict__["_rec"].clear()
        for e in evs:
            it.send(e)
            row.append([names(it.__dict__["_rec"]), sorted(n.id for n in it._active_state_nodes), dict(it.context)])
            it.__dict__["_rec"].clear()
        it.stop()
        out["sync"].append(row)

        async def go():
            it2 = Interpreter(m)
            it2.__dict__["_rec"] = []
            await it2.start()
            row2 = []
            it2.__dict__["_rec"].clear()
            for e in evs:
                await it2.send(e)
                await it2._event_queue.join()
                row2.append([names(it2.__dict__["_rec"]), sorted(n.id for n in it2._active_state_nodes), dict(it2.context)])
                it2.__dict__["_rec"].clear()
            await it2.stop()
            return row2

        out["async"].append(asyncio.run(go()))
        snap, _acts = initial_transition(m)
        row3 = []
        for e in evs:
            snap, acts = transition(m, snap, e)
            row3.append([[[a.type, (a.params or {}).get("s")] for a in acts if a.type in ("en", "ex", "tr")], sorted(snap.configuration), None])
        out["pure"].append(row3)
    print(json.dumps(out, sort_keys=True))
    return 0


if __name__ == "__main__":
    raise SystemExit(main())
