"""Environment stubs shared by all harnesses (every one is listed as an
assumption in the evidence files).

nulllog      the ``logger`` attribute of every xstate_statemachine module is
             replaced by an object whose methods do nothing.
hashpin      ``StateNode.__hash__`` returns a precomputed small int (``_vh``)
             so that ``set[StateNode]`` iteration order does not depend on
             allocation addresses (determinism across CrossHair iterations,
             and the layout knob of C16).
Recorder     append-only log used by marker actions / plugins.
"""
from __future__ import annotations

import sys
from typing import Any, Dict, List, Optional

ASSUMPTIONS_COMMON = [
    "nulllog: module loggers of xstate_statemachine replaced by a no-op object (logging has no effect on behaviour)",
    "hashpin: StateNode.__hash__ returns a fixed small int per node (document order), so set iteration order is fixed; eq stays identity",
    "CrossHair set/frozenset interposition removed: harnesses put only concrete objects into sets",
    "floats are modelled over the reals (CrossHair's IEEE-754 representation switched off): time arithmetic is exact, no rounding",
    "machines are finite instances of the skeleton families in vf/skeletons.py; the solver does not invent tree shapes",
]


class _NullLogger:
    def __getattr__(self, name: str) -> Any:
        return self._noop

    @staticmethod
    def _noop(*a: Any, **k: Any) -> None:
        return None

    def isEnabledFor(self, *_a: Any) -> bool:  # noqa: N802
        return False


NULL = _NullLogger()
_INSTALLED = False


def install() -> None:
    """Idempotently installs nulllog + hashpin."""
    global _INSTALLED
    if _INSTALLED:
        return
    import xstate_statemachine  # noqa: F401
    import importlib
    import pkgutil

    pkg = sys.modules["xstate_statemachine"]
    for m in pkgutil.walk_packages(pkg.__path__, pkg.__name__ + "."):
        if ".cli" in m.name:
            continue
        try:
            importlib.import_module(m.name)
        except Exception:
            pass
    for name, mod in list(sys.modules.items()):
        if name.startswith("xstate_statemachine") and mod is not None:
            if hasattr(mod, "logger"):
                setattr(mod, "logger", NULL)
            if hasattr(mod, "logging") and name.endswith(".models"):
                # models.py calls logging.debug/warning directly in InvokeDefinition
                class _L:
                    def __getattr__(self, n: str) -> Any:
                        import logging as _lg

                        if n in ("debug", "info", "warning", "error", "exception", "critical"):
                            return NULL._noop
                        return getattr(_lg, n)

                setattr(mod, "logging", _L())

    from xstate_statemachine.models import StateNode

    def _pinned_hash(self: Any) -> int:
        v = self.__dict__.get("_vh")
        return v if v is not None else object.__hash__(self)

    StateNode.__hash__ = _pinned_hash  # type: ignore[assignment]
    _INSTALLED = True


def pin_hashes(machine: Any, perm: Optional[List[int]] = None) -> List[Any]:
    """Assigns ``_vh`` in document (pre-)order, optionally permuted; returns
    the node list in document order."""
    nodes: List[Any] = []

    def walk(n: Any) -> None:
        nodes.append(n)
        for c in n.states.values():
            walk(c)

    walk(machine)
    for i, n in enumerate(nodes):
        n.__dict__["_vh"] = (perm[i] if perm is not None and i < len(perm) else i) + 1
    return nodes


class Recorder:
    """Append-only log of observations."""

    def __init__(self) -> None:
        self.log: List[Any] = []

    def add(self, *item: Any) -> None:
        self.log.append(item)

    def clear(self) -> None:
        self.log.clear()
