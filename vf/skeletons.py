"""Bounded machine families ("skeletons").

The solver does not invent tree shapes; this module enumerates them. A
skeleton is a plain JSON config (states only; every state carries marker
entry/exit actions). Within a skeleton everything else (configuration, source,
target, spellings, guards, events ...) is symbolic in the harnesses.

Spec mini-language used here: a node is (kind, children) with kind
  'c' compound, 'p' parallel, 'a' atomic, 'f' final, 'hs'/'hd' shallow/deep
  history; children is an ordered list of (key, node).
"""
from __future__ import annotations

import copy
import itertools
import random
from typing import Any, Dict, Iterator, List, Optional, Tuple

Spec = Tuple[str, List[Tuple[str, Any]]]


def A() -> Spec:
    return ("a", [])


def F() -> Spec:
    return ("f", [])


def HS(target: Optional[str] = None) -> Spec:
    return ("hs", [("__target__", target)] if target else [])


def HD(target: Optional[str] = None) -> Spec:
    return ("hd", [("__target__", target)] if target else [])


def C(*kids: Tuple[str, Spec], initial: Optional[str] = None, cid: Optional[str] = None) -> Spec:
    extra: List[Tuple[str, Any]] = []
    if initial:
        extra.append(("__initial__", initial))
    if cid:
        extra.append(("__id__", cid))
    return ("c", list(kids) + extra)


def P(*kids: Tuple[str, Spec], cid: Optional[str] = None) -> Spec:
    extra: List[Tuple[str, Any]] = []
    if cid:
        extra.append(("__id__", cid))
    return ("p", list(kids) + extra)


def to_config(spec: Spec, key: str, path: str, mark: bool = True) -> Dict[str, Any]:
    kind, kids = spec
    cfg: Dict[str, Any] = {}
    sid = path
    meta = {k: v for k, v in kids if k.startswith("__")}
    real = [(k, v) for k, v in kids if not k.startswith("__")]
    if kind == "f":
        cfg["type"] = "final"
    elif kind in ("hs", "hd"):
        cfg["type"] = "history"
        cfg["history"] = "deep" if kind == "hd" else "shallow"
        if "__target__" in meta:
            cfg["target"] = meta["__target__"]
        return cfg
    elif kind == "p":
        cfg["type"] = "parallel"
    if "__id__" in meta:
        cfg["id"] = meta["__id__"]
    if mark:
        cfg["entry"] = [{"type": "en", "params": {"s": sid}}]
        cfg["exit"] = [{"type": "ex", "params": {"s": sid}}]
    if kind in ("c", "p"):
        cfg["states"] = {k: to_config(v, k, f"{path}.{k}", mark) for k, v in real}
        if kind == "c":
            init = meta.get("__initial__")
            if init is None:
                init = next(k for k, v in real if v[0] not in ("hs", "hd"))
            cfg["initial"] = init
    return cfg


def machine_config(spec: Spec, mid: str = "m", mark: bool = True) -> Dict[str, Any]:
    cfg = to_config(spec, mid, mid, mark)
    cfg.pop("id", None)
    out = {"id": mid}
    out.update(cfg)
    return out


# ---------------------------------------------------------------------------
# curated skeletons (always run)
# ---------------------------------------------------------------------------

CURATED: Dict[str, Spec] = {
    "CUR1": C(("A", A()), ("B", A()), ("C", A())),
    "CUR2": C(
        ("A", C(("A1", C(("x", A()), ("y", A()))), ("A2", A()))),
        ("B", A()),
    ),
    "CUR3": C(
        ("P", P(
            ("R1", C(("a", A()), ("b", A()), ("f", F()))),
            ("R2", C(("c", A()), ("d", A()), ("g", F()))),
        )),
        ("O", A()),
        ("F", F()),
    ),
    "CUR4": C(
        ("P", P(
            ("R1", C(("a", A()), ("b", A()), ("f", F()))),
            ("R2", C(("c", A()), ("d", A()))),
            ("hs", HS()),
            ("hd", HD()),
        )),
        ("O", A()),
    ),
    "CUR5": C(
        ("A", C(
            ("W", C(
                ("s1", A()),
                ("s2", C(("t1", A()), ("t2", A()))),
                ("h", HS()),
                ("hd", HD("s2.t2")),
            )),
            ("X", A()),
        )),
        ("B", A()),
    ),
    "CUR6": C(
        ("P", P(
            ("R1", C(
                ("Q", P(
                    ("Q1", C(("u", A()), ("v", A()))),
                    ("Q2", C(("w", A()), ("z", F()))),
                )),
                ("n", A()),
            )),
            ("R2", C(("c", A()), ("d", F()))),
        )),
        ("O", A()),
    ),
    "CUR7": P(
        ("R1", C(("a", A()), ("b", A()))),
        ("R2", C(("c", A()), ("d", C(("d1", A()), ("d2", A()))))),
        ("R3", C(("e", A()), ("f", F()))),
    ),
    "CUR8": C(
        ("A", C(("m", A()), ("k", A()), cid="alpha")),
        ("v1.0", A()),
        ("B", C(("A", A()), ("x", A()), cid="beta")),
    ),
    # sibling keys in a string-prefix relation (R/R2, a/ab, P/P2): id-prefix
    # tests must respect the '.' separator
    "CUR10": C(
        ("P", P(
            ("R", C(("a", A()), ("ab", A()), ("f", F()))),
            ("R2", C(("c", A()), ("f", F()))),
            ("R21", C(("e", A()), ("ee", A()))),
        )),
        ("P2", A()),
    ),
    # three regions below one parallel state (shared-ancestor selection)
    "CUR11": C(
        ("P", P(
            ("R1", C(("a", A()), ("a2", A()))),
            ("R2", C(("c", A()))),
            ("R3", C(("e", A()), ("e2", A()))),
        )),
        ("O", A()),
    ),
    # history parents that are NOT on the initial path (never-visited case)
    "CUR12": C(
        ("O", A()),
        ("W", C(
            ("s1", A()),
            ("s2", C(("p", A()), ("q", A()))),
            ("h", HS()),
            ("hd", HD()),
            ("hx", HS("s2")),
        )),
    ),
    "CUR13": C(
        ("O", A()),
        ("P", P(
            ("R1", C(("a", A()), ("b", A()))),
            ("R2", C(("c", A()), ("d", C(("d1", A()), ("d2", A()))))),
            ("hs", HS()),
            ("hd", HD()),
        )),
    ),
    # deep history below a region whose sibling's key extends its own key
    "CUR14": C(
        ("P", P(
            ("doc", C(("clean", A()), ("dirty", A()), ("hd", HD()))),
            ("doc_view", C(("list", A()), ("grid", A()))),
        )),
        ("O", A()),
    ),
    # a compound key re-used along one entry path (E > D > E), a child with its parent's key (Q > Q), a child with
    # the machine's own id as key (m): anything that indexes states by bare key instead of id goes wrong here
    "CUR15": C(
        ("O", A()),
        ("E", C(
            ("D", C(
                ("E", C(("x", A()), ("y", A()))),
                ("z", A()),
            )),
            ("w", A()),
        )),
        ("Q", C(("Q", C(("q1", A()), ("q2", A()))), ("r", A()))),
        ("m", C(("m1", A()), ("m2", A()))),
    ),
    # history of a COMPOUND state whose remembered configuration has several leaves sharing an ancestor strictly
    # below the history's parent (a parallel state inside the compound)
    "CUR16": C(
        ("W", C(
            ("idle", A()),
            ("run", P(
                ("r1", C(("a", A()), ("b", A()))),
                ("r2", C(("c", A()), ("d", F()))),
            )),
            ("hd", HD()),
            ("hs", HS()),
        )),
        ("O", A()),
    ),
    # history default targets in every documented spelling: dot-relative ('.details' = sibling of the history node),
    # dotted relative path, absolute '#m...' - with a state of the same name one level up, so that resolving the
    # default from the wrong reference node silently lands somewhere else; never visited (W is off the initial path)
    "CUR17": C(
        ("O", A()),
        ("W", C(
            ("intro", A()),
            ("details", C(("d1", A()), ("d2", A()))),
            ("deck", P(
                ("tr", C(("stopped", A()), ("playing", A()), ("hr", HS(".playing")))),
                ("vol", C(("normal", A()), ("loud", A()))),
            )),
            ("h1", HS(".details")),
            ("h2", HD(".details.d2")),
            ("h3", HD("#m.W.deck.tr.playing")),
            ("h4", HS("deck")),
        )),
        ("details", A()),
        ("playing", A()),
    ),
    "CUR9": C(
        ("W", C(
            ("s1", A()),
            ("s2", A()),
            ("s3", C(("p", A()), ("q", A()))),
            ("h", HS("s2")),
        )),
        ("O", A()),
        ("Z", C(("W", A()), ("y", A()))),
    ),
}


# ---------------------------------------------------------------------------
# generated family
# ---------------------------------------------------------------------------

def _trees(n: int, depth: int) -> Iterator[Any]:
    """All ordered rooted forests-as-children lists with exactly n nodes in
    total below the root and height <= depth. A tree is a list of subtrees."""
    if n == 0:
        yield []
        return
    if depth == 0:
        return
    # first child has k nodes in total (1..n), rest is a forest of n-k nodes
    for k in range(1, n + 1):
        for first in _trees(k - 1, depth - 1):
            for rest in _trees(n - k, depth):
                yield [first] + rest


def _label(tree: List[Any], rng_choices: Dict[str, int]) -> Iterator[Spec]:
    """All labellings of an unlabelled tree (children list)."""
    def lab(t: List[Any], is_root: bool) -> Iterator[Spec]:
        if not t:
            kinds = ["a"] if is_root else ["a", "f", "hs", "hd"]
            for k in kinds:
                yield (k, [])
            return
        child_opts = [list(lab(c, False)) for c in t]
        for combo in itertools.product(*child_opts):
            kids = [(f"s{i}", sp) for i, sp in enumerate(combo)]
            non_hist = [sp for _, sp in kids if sp[0] not in ("hs", "hd")]
            if not non_hist:
                continue
            for k in ("c", "p"):
                if k == "p" and any(sp[0] == "f" for sp in non_hist):
                    # a final child directly under a parallel state is legal in
                    # the library (a region that is immediately done); keep it.
                    pass
                yield (k, list(kids))
    yield from lab(tree, True)


def _count(spec: Spec, kind: str) -> int:
    k, kids = spec
    n = 1 if k == kind or (kind == "h" and k in ("hs", "hd")) else 0
    for key, sub in kids:
        if not key.startswith("__"):
            n += _count(sub, kind)
    return n


def _canon(spec: Spec) -> Any:
    k, kids = spec
    return (k, tuple(_canon(s) for key, s in kids if not key.startswith("__")))


def gen(n_max: int, depth_max: int, limit: Optional[int] = None, seed: int = 0) -> List[Tuple[str, Spec]]:
    """Every rooted ordered tree with 2..n_max non-root nodes and height <=
    depth_max, every labelling subject to: >=1 non-history child per
    compound/parallel; <=2 parallel nodes; <=2 history nodes; <=3 final leaves;
    root is compound or parallel. Deterministically sampled down to ``limit``
    by ``seed`` (sampling never changes a verdict on a given skeleton)."""
    out: List[Tuple[str, Spec]] = []
    seen = set()
    for n in range(2, n_max + 1):
        for tree in _trees(n, depth_max):
            for spec in _label(tree, {}):
                if spec[0] not in ("c", "p"):
                    continue
                if _count(spec, "p") > 2 or _count(spec, "h") > 2 or _count(spec, "f") > 3:
                    continue
                key = _canon(spec)
                if key in seen:
                    continue
                seen.add(key)
                out.append((f"G{len(out)}", spec))
    if limit is not None and len(out) > limit:
        rnd = random.Random(seed)
        idx = sorted(rnd.sample(range(len(out)), limit))
        out = [out[i] for i in idx]
    return out


# ---------------------------------------------------------------------------
# built skeleton (machine + indices), cached per process
# ---------------------------------------------------------------------------

class Skel:
    def __init__(self, sid: str, spec: Spec, logic: Any = None, extra: Optional[Dict[str, Any]] = None):
        from vf import env
        from xstate_statemachine import create_machine

        env.install()
        self.sid = sid
        self.spec = spec
        self.cfg = machine_config(spec)
        if extra:
            self.cfg.update(extra)
        self.machine = create_machine(copy.deepcopy(self.cfg), logic=logic)
        self.nodes = env.pin_hashes(self.machine)
        self.index = {n.id: i for i, n in enumerate(self.nodes)}
        self.compounds = [n for n in self.nodes if n.type == "compound"]
        self.hist_parents = [
            n for n in self.nodes if any(c.type == "history" for c in n.states.values())
        ]

    def real_children(self, node: Any) -> List[Any]:
        return [c for c in node.states.values() if c.type != "history"]


def spec_of(sid: str, tier_family: Optional[List[Tuple[str, Spec]]] = None) -> Spec:
    if sid in CURATED:
        return CURATED[sid]
    fam = tier_family if tier_family is not None else gen(5, 3)
    for k, s in fam:
        if k == sid:
            return s
    raise KeyError(sid)
