"""Marker logic shared by the harnesses: every marker action appends
(kind, state-or-label, event object) to the interpreter's ``_rec`` list (if it
has one). Guards named g0..g7 read their truth value from ``interp._gv``
lazily (so only guards the engine actually evaluates fork under CrossHair)."""
from __future__ import annotations

from typing import Any, Callable, Dict, Optional


def _rec(interp: Any) -> Optional[list]:
    return interp.__dict__.get("_rec")


def act_en(interp: Any, ctx: Any, event: Any, ad: Any) -> None:
    r = _rec(interp)
    if r is not None:
        r.append(("en", ad.params["s"], event))


def act_ex(interp: Any, ctx: Any, event: Any, ad: Any) -> None:
    r = _rec(interp)
    if r is not None:
        r.append(("ex", ad.params["s"], event))


def act_tr(interp: Any, ctx: Any, event: Any, ad: Any) -> None:
    r = _rec(interp)
    if r is not None:
        r.append(("tr", ad.params["s"] if ad.params else None, event))


def base_actions() -> Dict[str, Callable[..., Any]]:
    return {"en": act_en, "ex": act_ex, "tr": act_tr}


def make_logic(actions: Optional[Dict[str, Any]] = None, guards: Optional[Dict[str, Any]] = None,
               services: Optional[Dict[str, Any]] = None, delays: Optional[Dict[str, Any]] = None) -> Any:
    from xstate_statemachine import MachineLogic

    a = base_actions()
    a.update(actions or {})
    kw: Dict[str, Any] = {"actions": a, "guards": guards or {}, "services": services or {}}
    if delays is not None:
        kw["delays"] = delays
    return MachineLogic(**kw)
