"""Virtual threads for the sync engine (stub ``vthreading``).

Replaces the name ``threading`` inside ``xstate_statemachine.sync_interpreter``
by an object whose ``Thread`` / ``Event`` run on a virtual clock:

* a started thread's body runs *atomically* at an instant chosen by the
  scheduler: at its deadline (creation instant + the delay the engine asked
  for), or as soon as the Event it waits on has been set;
* ``Event.wait(t)`` inside a running body returns the flag at once (the wait
  has already been accounted for by the scheduler);
* deadlines are learned by call-through wrappers on
  ``SyncInterpreter._after_timer(self, delay_sec, ...)`` and
  ``SyncInterpreter._deliver(self, actor, event, delay, send_id)`` which record
  the argument and then call the real method.

Bodies run only at ``advance_to`` / ``advance_by`` calls: between harness
calls, or inside a "slow action" that the harness puts into the machine - which
is how an expiry notification lands in the queue *behind* events that are
already queued. Pre-emptive interleavings inside send() are outside the model.
"""
from __future__ import annotations

import _thread
from typing import Any, Callable, Dict, List, Optional


class _Kill(BaseException):
    """Raised inside a suspended polling thread when the scheduler is reset."""



class VEvent:
    def __init__(self) -> None:
        self.flag = False
        SCHED.last_event = self

    def set(self) -> None:
        self.flag = True

    def is_set(self) -> bool:
        return self.flag

    def clear(self) -> None:
        self.flag = False

    def wait(self, timeout: Optional[float] = None) -> bool:
        if SCHED.running is None:
            raise RuntimeError("vthreading: Event.wait() outside a virtual thread body (would block the main thread)")
        return self.flag


class VThread:
    def __init__(self, target: Optional[Callable[..., Any]] = None, name: Optional[str] = None, daemon: Optional[bool] = None,
                 args: Any = (), kwargs: Any = None, group: Any = None) -> None:
        self.target = target
        self.name = name or "vthread"
        self.daemon = daemon
        self.args = args
        self.kwargs = kwargs or {}
        self.event = SCHED.last_event
        self.delay = SCHED.next_delay
        SCHED.next_delay = None
        SCHED.last_event = None
        self.deadline: Any = None
        self.done = False
        self.started = False
        # "actor-*" threads are pollers (`while running: time.sleep(0.01)`):
        # they run as coroutines on a real OS thread with baton passing - only
        # one of {main thread, poller} runs at any time; each virtual
        # time.sleep() hands the baton back to the scheduler.
        self.co = self.name.startswith("actor-")
        if self.co:
            self.event = None
        self.os_started = False
        self.kill = False
        self.go = _thread.allocate_lock()
        self.back = _thread.allocate_lock()
        self.go.acquire()
        self.back.acquire()

    def start(self) -> None:
        self.started = True
        d = self.delay if self.delay is not None else 0.0
        self.deadline = SCHED.now + d
        SCHED.seq += 1
        self.seq = SCHED.seq
        SCHED.pending.append(self)

    def is_alive(self) -> bool:
        return self.started and not self.done

    def join(self, timeout: Optional[float] = None) -> None:
        return None

    def _co_body(self) -> None:
        self.go.acquire()
        try:
            if not self.kill and self.target is not None:
                self.target(*self.args, **self.kwargs)
        except _Kill:
            pass
        except Exception as e:  # noqa: BLE001 - reported by the harness through SCHED.errors
            SCHED.errors.append(repr(e))
        finally:
            self.done = True
            SCHED.by_ident.pop(_thread.get_ident(), None)
            self.back.release()

    def _resume(self) -> None:
        """Main thread: let the poller run until its next sleep (or its end)."""
        if not self.os_started:
            self.os_started = True
            ident = _thread.start_new_thread(self._co_body, ())
            SCHED.by_ident[ident] = self
        self.go.release()
        self.back.acquire()

    def _run(self) -> None:
        if self.co:
            self._resume()
            if not self.done:
                SCHED.pending.append(self)
            return
        SCHED.running = self
        try:
            if self.target is not None:
                self.target(*self.args, **self.kwargs)
        finally:
            SCHED.running = None
            self.done = True


class _Sched:
    def __init__(self) -> None:
        self.reset()

    def reset(self, start: Any = 0.0) -> None:
        for t in list(getattr(self, "pending", [])):
            if getattr(t, "co", False) and t.os_started and not t.done:
                t.kill = True
                t._resume()
        self.by_ident: Dict[int, VThread] = {}
        self.errors: List[str] = []
        self.now: Any = start
        self.pending: List[VThread] = []
        self.seq = 0
        self.running: Optional[VThread] = None
        self.last_event: Optional[VEvent] = None
        self.next_delay: Any = None
        self.fired: List[Any] = []

    def _next(self, limit: Any) -> Optional[VThread]:
        """Earliest runnable body: a cancelled one (runs 'now'), else the one
        with the smallest deadline <= limit (ties by creation order)."""
        best: Optional[VThread] = None
        for t in self.pending:
            if t.done:
                continue
            if t.event is not None and t.event.flag:
                return t
            if t.deadline <= limit:
                if best is None or t.deadline < best.deadline:
                    best = t
        return best

    def advance_to(self, t: Any) -> None:
        while True:
            th = self._next(t)
            if th is None:
                break
            self.pending.remove(th)
            if not (th.event is not None and th.event.flag):
                if th.deadline > self.now:
                    self.now = th.deadline
            th._run()
        if t > self.now:
            self.now = t

    def advance_by(self, d: Any) -> None:
        self.advance_to(self.now + d)

    def live(self) -> List[VThread]:
        return [t for t in self.pending if not t.done and not (t.event is not None and t.event.flag)]


SCHED = _Sched()


class _VTime:
    """``time`` as seen by sync_interpreter: only sleep() is used there."""

    @staticmethod
    def sleep(d: Any) -> None:
        th = SCHED.by_ident.get(_thread.get_ident())
        if th is None:
            from vf.kf import HarnessLimit

            raise HarnessLimit("vthreading: time.sleep() outside a polling thread")
        th.deadline = SCHED.now + d
        th.back.release()
        th.go.acquire()
        if th.kill:
            raise _Kill()

    def __getattr__(self, name: str) -> Any:
        import time as _t

        return getattr(_t, name)


class _VThreading:
    Thread = VThread
    Event = VEvent

    @staticmethod
    def current_thread() -> Any:
        return SCHED.running

    @staticmethod
    def enumerate() -> List[Any]:
        return list(SCHED.live())

    def __getattr__(self, name: str) -> Any:
        from vf.kf import HarnessLimit

        raise HarnessLimit(f"vthreading stub does not model threading.{name}")


_INSTALLED = False


def install() -> None:
    """Idempotent: swaps sync_interpreter.threading and wraps the two methods
    that carry the delay."""
    global _INSTALLED
    if _INSTALLED:
        return
    import xstate_statemachine.sync_interpreter as si

    si.threading = _VThreading()  # type: ignore[attr-defined]
    si.time = _VTime()  # type: ignore[attr-defined]
    cls = si.SyncInterpreter
    orig_after = cls._after_timer
    orig_deliver = cls._deliver

    def _after_timer(self: Any, delay_sec: Any, event: Any, owner_id: str) -> Any:
        SCHED.next_delay = delay_sec
        return orig_after(self, delay_sec, event, owner_id)

    def _deliver(self: Any, actor: Any, target_event: Any, delay: Any, send_id: Any) -> Any:
        if delay:
            SCHED.next_delay = delay / 1000.0
        return orig_deliver(self, actor, target_event, delay, send_id)

    cls._after_timer = _after_timer  # type: ignore[assignment]
    cls._deliver = _deliver  # type: ignore[assignment]
    _INSTALLED = True
