"""CrossHair API driver: run one obligation (a PEP-316 annotated harness
function) to a verdict, with path / solver statistics and a structured
counterexample.

Verdicts
--------
confirmed   CrossHair exhausted the path tree; every leaf satisfied the
            postcondition (z3 decided each branch inside the library code).
refuted     a path violated the postcondition or raised; ``cex`` holds the
            concrete argument values z3 produced.
unknown     tree not exhausted within budget / realisation made a path
            unverifiable ("Not confirmed").
pre_unsat   no path satisfied the precondition (vacuous, or every path aborted).
error       the analysis itself failed (import error, CrossHair internal).
"""
from __future__ import annotations

import dataclasses
import time
import traceback
from collections import Counter
from typing import Any, Callable, Dict, Optional

_LOADED = False
_SOLVER = {"queries": 0, "seconds": 0.0}


def _load() -> None:
    global _LOADED
    if _LOADED:
        return
    import crosshair.core_and_libs  # noqa: F401  (registers patches)
    import crosshair.core as core
    import z3

    # CrossHair replaces every set()/frozenset() built in traced code by a
    # linear "shell" set. The harnesses never put a symbolic value into a set
    # (members are StateNode objects / ints), and the interposition costs ~75%
    # of the run time on this code base.
    for ent in (set, frozenset):
        core._PATCH_REGISTRATIONS.pop(ent, None)

    # Floats are modelled over the reals only. By default CrossHair also forks a
    # bit-precise IEEE-754 representation (z3 FP theory) for every float that is
    # created, and a tree can only be exhausted after those paths as well - a
    # trivial three-comparison function then takes > 60 s instead of 0.1 s.
    # Every claim that involves time is therefore a claim about real-number
    # arithmetic (no rounding); stated in the evidence assumptions.
    import crosshair.libimpl.builtinslib as _bl

    _bl._PYTYPE_TO_WRAPPER_TYPE[float] = ((_bl.RealBasedSymbolicFloat, 1.0),)

    # Nested-contract enforcement is switched off: the harnesses carry the only
    # contracts. CrossHair otherwise inspects EVERY called function for PEP-316
    # conditions, which (a) raises ValueError('Cell is empty') from
    # inspect.getclosurevars on closures called before all their cells are
    # filled (Interpreter._deliver's `_delayed`), silently turning delayed sends
    # into contained action errors under tracing, and (b) costs time.
    import crosshair.enforce as _enf

    def _no_enforcement(self, frame, fn, binding_target):  # type: ignore[no-untyped-def]
        if isinstance(fn, _enf.NoEnforce):
            return fn.fn
        return None

    _enf.EnforcedConditions.trace_call = _no_enforcement  # type: ignore[assignment]

    orig_check = z3.Solver.check

    def timed_check(self, *a, **k):  # type: ignore[no-untyped-def]
        t0 = time.perf_counter()
        try:
            return orig_check(self, *a, **k)
        finally:
            _SOLVER["queries"] += 1
            _SOLVER["seconds"] += time.perf_counter() - t0

    z3.Solver.check = timed_check  # type: ignore[assignment]
    _LOADED = True


def _jsonable(v: Any) -> Any:
    if isinstance(v, (bool, int, str, type(None))):
        return v
    if isinstance(v, float):
        return v
    if isinstance(v, (list, tuple)):
        return [_jsonable(x) for x in v]
    if isinstance(v, dict):
        return {str(k): _jsonable(x) for k, x in v.items()}
    return repr(v)


def run_obligation(
    fn: Callable[..., Any],
    timeout: float = 60.0,
    per_path_timeout: float = 20.0,
) -> Dict[str, Any]:
    """Analyse ``fn`` (docstring carries ``pre:``/``post:``) with CrossHair."""
    _load()
    from crosshair.core_and_libs import analyze_function
    from crosshair.core import ConditionCheckable
    from crosshair.condition_parser import default_counterexample
    from crosshair.options import AnalysisKind, AnalysisOptionSet
    from crosshair.statespace import MessageType

    stats: Counter = Counter()
    opts = AnalysisOptionSet(
        per_condition_timeout=timeout,
        per_path_timeout=per_path_timeout,
        max_uninteresting_iterations=10**9,
        stats=stats,
        analysis_kind=[AnalysisKind.PEP316],
    )
    res: Dict[str, Any] = {
        "obligation": fn.__name__,
        "verdict": "error",
        "paths": 0,
        "z3_queries": 0,
        "solver_s": 0.0,
        "wall_s": 0.0,
        "message": "",
        "cex": None,
    }
    q0, s0 = _SOLVER["queries"], _SOLVER["seconds"]
    t0 = time.perf_counter()
    captured: Dict[str, Any] = {}

    def maker(args, return_val, repr_overrides):  # type: ignore[no-untyped-def]
        try:
            captured["args"] = {k: _jsonable(v) for k, v in args.arguments.items()}
        except Exception:  # pragma: no cover
            captured["args"] = None
        return default_counterexample(fn.__name__, args, return_val, repr_overrides)

    try:
        checkables = analyze_function(fn, opts)
        if not checkables:
            res["message"] = "no conditions found on obligation"
            return res
        msgs = []
        for c in checkables:
            if isinstance(c, ConditionCheckable):
                c = dataclasses.replace(
                    c,
                    conditions=dataclasses.replace(
                        c.conditions, counterexample_description_maker=maker
                    ),
                )
                c.options.stats = stats
            msgs.extend(c.analyze())
        verdict = "unknown"
        text = []
        for m in msgs:
            text.append(f"{m.state.name}: {m.message}")
            if m.state == MessageType.CONFIRMED:
                verdict = "confirmed"
            elif m.state in (MessageType.POST_FAIL, MessageType.EXEC_ERR, MessageType.POST_ERR):
                verdict = "refuted"
                break
            elif m.state == MessageType.PRE_UNSAT:
                verdict = "pre_unsat"
            elif m.state == MessageType.CANNOT_CONFIRM:
                verdict = "unknown"
            elif m.state in (MessageType.SYNTAX_ERR, MessageType.IMPORT_ERR):
                verdict = "error"
        res["verdict"] = verdict
        res["message"] = " | ".join(text)[:2000]
        if verdict == "refuted":
            res["cex"] = captured.get("args")
            tb = next((m.traceback for m in msgs if m.traceback), "")
            if tb:
                res["traceback"] = tb[-1500:]
    except BaseException as e:  # CrossHair internals raise BaseException subclasses
        if isinstance(e, (KeyboardInterrupt, SystemExit)):
            raise
        res["verdict"] = "error"
        res["message"] = f"{type(e).__name__}: {e}\n" + traceback.format_exc()[-1500:]
    finally:
        res["paths"] = int(stats.get("num_paths", 0))
        res["z3_queries"] = _SOLVER["queries"] - q0
        res["solver_s"] = round(_SOLVER["seconds"] - s0, 3)
        res["wall_s"] = round(time.perf_counter() - t0, 3)
    return res
