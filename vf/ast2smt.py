"""A small symbolic interpreter from Python AST to z3 (strings, ints, bools, lists
of bounded length) for *leaf kernels* of /repo that CrossHair can only decide up
to a string-length bound.  The function's source is read from the imported
module at run time (inspect.getsource on the working tree), parsed with ``ast``
and executed statement by statement on z3 terms; a branch on a symbolic
condition is decided by the solver (both sides feasible -> the path forks; the
exploration is a DFS over decision vectors with re-execution, as in CrossHair).
At every ``return`` the caller's property is asserted negated under the path
condition: ``unsat`` on every path = the property holds for strings of ANY
length (the number of keys is the only bound); ``sat`` = a concrete input, to be
replayed natively; ``unknown`` / an unsupported construct = inconclusive.

Supported subset (enough for ``_matching_descriptors`` and its plausible
rewrites): if / for over a bounded sequence / assignments / return / continue /
break / pass; ==, !=, in, not in, <, <=, >, >=, and, or, not; str.startswith /
endswith (str or tuple), slicing s[:-n], s[:len(s)-n], s[n:], s[a:b] with
constant offsets, s + t, len, list literals, append / extend / sort(key=len,
reverse=...), sorted(...), list(...), tuple constants, conditional expressions,
str.removesuffix / removeprefix, str.split is NOT supported.  Anything else
raises Unsupported (-> inconclusive, never a verdict).
"""
from __future__ import annotations

import ast
import inspect
import os
import textwrap
import time
from typing import Any, Callable, Dict, List, Optional, Tuple

import z3


class Unsupported(Exception):
    pass


class _Return(Exception):
    def __init__(self, value: Any) -> None:
        self.value = value


class _Break(Exception):
    pass


class _Continue(Exception):
    pass


class SymObj:
    """An opaque object with symbolic / concrete attributes (e.g. a StateNode with a symbolic ``id``); ``==`` is identity."""

    def __init__(self, name: str, **attrs: Any) -> None:
        self.name = name
        self.attrs = attrs


class SymMap:
    """A dict whose keys are symbolic strings (pairwise distinct, insertion order = list order)."""

    def __init__(self, keys: List[Any]) -> None:
        self.keys = keys


def _is_sym(v: Any) -> bool:
    return isinstance(v, z3.ExprRef)


def _S(v: Any) -> Any:
    if isinstance(v, str):
        return z3.StringVal(v)
    return v


def _cvc5_check(smt2: str, names: List[str], tlimit_ms: int) -> Tuple[str, Optional[Dict[str, str]]]:
    """Second solver: the cvc5 binary on the SMT-LIB text z3 printed for the same assertions.  Returns (sat|unsat|unknown,
    {name: python str} for sat)."""
    import re
    import shutil
    import subprocess
    import tempfile

    exe = shutil.which("cvc5")
    if exe is None:
        return "unknown", None
    body = "(set-logic ALL)\n(set-option :produce-models true)\n" + smt2
    if names:
        body += "\n(get-value (" + " ".join(names) + "))\n"
    with tempfile.NamedTemporaryFile("w", suffix=".smt2", delete=False) as f:
        f.write(body)
        path = f.name
    try:
        p = subprocess.run([exe, "--strings-exp", f"--tlimit={tlimit_ms}", path], capture_output=True, text=True,
                           timeout=tlimit_ms / 1000.0 + 10)
        out = p.stdout
    except Exception:  # noqa: BLE001
        return "unknown", None
    finally:
        try:
            os.unlink(path)
        except OSError:
            pass
    if "(error" in out or "(error" in (p.stderr or ""):
        head = out.strip().splitlines()[0] if out.strip() else ""
        if head != "sat" and head != "unsat":
            return "unknown", None
    head = out.strip().splitlines()[0] if out.strip() else "unknown"
    if head == "unsat":
        return "unsat", None
    if head != "sat":
        return "unknown", None
    vals: Dict[str, str] = {}
    for m in re.finditer(r'\((\w+) "((?:[^"]|"")*)"\)', out):
        raw = m.group(2).replace('""', '"')
        vals[m.group(1)] = re.sub(r"\\u\{([0-9a-fA-F]+)\}", lambda mm: chr(int(mm.group(1), 16)), raw)
    return "sat", vals


class Explorer:
    """Path exploration state + the solver portfolio: z3 (Python API, short time-out) first, and the cvc5 binary on the
    same assertions when z3 answers unknown (z3's sequence solver gives up on some unsat prefix/suffix combinations that
    cvc5 refutes in well under a second).  Results are the strings 'sat' / 'unsat' / 'unknown'; a model is either a z3
    model or a {name: str} dict."""

    def __init__(self, timeout_s: float, query_timeout_ms: int = 3000, names: Optional[List[str]] = None) -> None:
        self.solver = z3.Solver()
        self.solver.set("timeout", query_timeout_ms)
        self.names = names or []
        self.cvc5_queries = 0
        self.deadline = time.time() + timeout_s
        self.queries = 0
        self.solver_s = 0.0
        self.unknowns = 0
        self.prefix: List[bool] = []
        self.taken: List[bool] = []
        self.pending: List[List[bool]] = []
        self.pc: List[Any] = []

    def check(self, *extra: Any) -> Any:
        if time.time() > self.deadline:
            raise TimeoutError("ast2smt wall budget exhausted")
        t0 = time.perf_counter()
        self.solver.push()
        for c in self.pc:
            self.solver.add(c)
        for c in extra:
            self.solver.add(c)
        rz = self.solver.check()
        model: Any = self.solver.model() if rz == z3.sat else None
        r = str(rz)
        if r == "unknown":
            text = self.solver.to_smt2()
            self.cvc5_queries += 1
            r, model = _cvc5_check(text, self.names, 30000)
        self.solver.pop()
        self.queries += 1
        self.solver_s += time.perf_counter() - t0
        if r == "unknown":
            self.unknowns += 1
        return r, model

    def decide(self, cond: Any) -> bool:
        """Concretise a (possibly symbolic) truth value on the current path."""
        if isinstance(cond, bool):
            return cond
        cond = z3.simplify(cond)
        if z3.is_true(cond):
            return True
        if z3.is_false(cond):
            return False
        i = len(self.taken)
        if i < len(self.prefix):
            choice = self.prefix[i]
        else:
            rt, _ = self.check(cond)
            rf, _ = self.check(z3.Not(cond))
            if rt == "unknown" or rf == "unknown":
                raise Unsupported("both solvers answered unknown on a branch condition")
            if rt == "sat" and rf == "sat":
                choice = True
                self.pending.append(self.taken + [False])
            elif rt == "sat":
                choice = True
            elif rf == "sat":
                choice = False
            else:
                raise _Infeasible()
        self.taken.append(choice)
        self.pc.append(cond if choice else z3.Not(cond))
        return choice


class _Infeasible(Exception):
    pass


class Interp:
    def __init__(self, ex: Explorer, glob: Dict[str, Any]) -> None:
        self.ex = ex
        self.glob = glob

    # ---------------- expressions ----------------
    def truth(self, v: Any) -> Any:
        if isinstance(v, bool):
            return v
        if v is None:
            return False
        if isinstance(v, (str, list, tuple, int)):
            return bool(v)
        if isinstance(v, SymMap):
            return len(v.keys) > 0
        if isinstance(v, SymObj):
            return True
        if z3.is_bool(v):
            return v
        if z3.is_string(v):
            return z3.Length(v) > 0
        if z3.is_int(v):
            return v != 0
        raise Unsupported(f"truthiness of {type(v).__name__}")

    def eq(self, a: Any, b: Any) -> Any:
        if isinstance(a, SymObj) or isinstance(b, SymObj):
            return a is b
        if not _is_sym(a) and not _is_sym(b):
            return a == b
        if isinstance(a, (str,)) or isinstance(b, (str,)) or (_is_sym(a) and z3.is_string(a)):
            if isinstance(a, (int, bool)) or isinstance(b, (int, bool)) or a is None or b is None:
                return False
            return _S(a) == _S(b)
        return a == b

    def contains(self, item: Any, cont: Any) -> Any:
        if isinstance(cont, SymMap):
            seq = cont.keys
        elif isinstance(cont, (list, tuple)):
            seq = list(cont)
        elif isinstance(cont, str) or (_is_sym(cont) and z3.is_string(cont)):
            return z3.Contains(_S(cont), _S(item))
        else:
            raise Unsupported("'in' on " + type(cont).__name__)
        terms = [self.eq(item, k) for k in seq]
        if all(isinstance(t, bool) for t in terms):
            return any(terms)
        return z3.Or(*[t if _is_sym(t) else z3.BoolVal(t) for t in terms])

    def expr(self, n: ast.AST, env: Dict[str, Any]) -> Any:
        if isinstance(n, ast.Constant):
            return n.value
        if isinstance(n, ast.Name):
            if n.id in env:
                return env[n.id]
            if n.id in ("len", "sorted", "list", "tuple", "str", "any", "all", "reversed"):
                return ("builtin", n.id)
            if n.id in self.glob and isinstance(self.glob[n.id], (str, int, tuple, bool)):
                return self.glob[n.id]
            raise Unsupported(f"name {n.id}")
        if isinstance(n, ast.Attribute):
            base = self.expr(n.value, env)
            if isinstance(base, SymObj) and n.attr in base.attrs:
                return base.attrs[n.attr]
            raise Unsupported(f"attribute .{n.attr}")
        if isinstance(n, ast.JoinedStr):
            parts: List[Any] = []
            for v in n.values:
                if isinstance(v, ast.Constant):
                    parts.append(v.value)
                elif isinstance(v, ast.FormattedValue) and v.conversion == -1 and v.format_spec is None:
                    pv = self.expr(v.value, env)
                    if not (isinstance(pv, str) or (_is_sym(pv) and z3.is_string(pv))):
                        raise Unsupported("f-string of a non-string")
                    parts.append(pv)
                else:
                    raise Unsupported("f-string conversion")
            if all(isinstance(x, str) for x in parts):
                return "".join(parts)
            if len(parts) == 1:
                return _S(parts[0])
            return z3.Concat(*[_S(x) for x in parts])
        if isinstance(n, ast.Tuple):
            return tuple(self.expr(e, env) for e in n.elts)
        if isinstance(n, ast.List):
            return [self.expr(e, env) for e in n.elts]
        if isinstance(n, ast.UnaryOp):
            v = self.expr(n.operand, env)
            if isinstance(n.op, ast.Not):
                t = self.truth(v)
                return (not t) if isinstance(t, bool) else z3.Not(t)
            if isinstance(n.op, ast.USub):
                return -v
            raise Unsupported("unary op")
        if isinstance(n, ast.BoolOp):
            # short-circuit semantics only matter for side effects / errors; operands here are pure
            vals = [self.truth(self.expr(v, env)) for v in n.values]
            if all(isinstance(v, bool) for v in vals):
                return all(vals) if isinstance(n.op, ast.And) else any(vals)
            zs = [v if _is_sym(v) else z3.BoolVal(v) for v in vals]
            return z3.And(*zs) if isinstance(n.op, ast.And) else z3.Or(*zs)
        if isinstance(n, ast.IfExp):
            return self.expr(n.body, env) if self.ex.decide(self.truth(self.expr(n.test, env))) else self.expr(n.orelse, env)
        if isinstance(n, ast.Compare):
            left = self.expr(n.left, env)
            out: List[Any] = []
            for op, rn in zip(n.ops, n.comparators):
                right = self.expr(rn, env)
                if isinstance(op, ast.Eq):
                    r = self.eq(left, right)
                elif isinstance(op, ast.NotEq):
                    r = self.eq(left, right)
                    r = (not r) if isinstance(r, bool) else z3.Not(r)
                elif isinstance(op, ast.In):
                    r = self.contains(left, right)
                elif isinstance(op, ast.NotIn):
                    r = self.contains(left, right)
                    r = (not r) if isinstance(r, bool) else z3.Not(r)
                elif isinstance(op, (ast.Lt, ast.LtE, ast.Gt, ast.GtE)):
                    if isinstance(left, str) or isinstance(right, str) or (_is_sym(left) and z3.is_string(left)):
                        raise Unsupported("ordering of strings")
                    r = {ast.Lt: lambda a, b: a < b, ast.LtE: lambda a, b: a <= b, ast.Gt: lambda a, b: a > b,
                         ast.GtE: lambda a, b: a >= b}[type(op)](left, right)
                elif isinstance(op, ast.Is):
                    r = left is right
                elif isinstance(op, ast.IsNot):
                    r = left is not right
                else:
                    raise Unsupported("comparison")
                out.append(r)
                left = right
            if len(out) == 1:
                return out[0]
            if all(isinstance(v, bool) for v in out):
                return all(out)
            return z3.And(*[v if _is_sym(v) else z3.BoolVal(v) for v in out])
        if isinstance(n, ast.BinOp):
            a, b = self.expr(n.left, env), self.expr(n.right, env)
            if isinstance(n.op, ast.Add):
                if isinstance(a, list) and isinstance(b, list):
                    return a + b
                if isinstance(a, str) and isinstance(b, str):
                    return a + b
                if isinstance(a, str) or isinstance(b, str) or (_is_sym(a) and z3.is_string(a)):
                    return z3.Concat(_S(a), _S(b))
                return a + b
            if isinstance(n.op, ast.Sub):
                return a - b
            raise Unsupported("binary op")
        if isinstance(n, ast.Subscript):
            base = self.expr(n.value, env)
            if isinstance(n.slice, ast.Slice):
                if n.slice.step is not None:
                    raise Unsupported("slice step")
                lo = self.expr(n.slice.lower, env) if n.slice.lower is not None else None
                hi = self.expr(n.slice.upper, env) if n.slice.upper is not None else None
                return self.slice(base, lo, hi)
            idx = self.expr(n.slice, env)
            if isinstance(base, (list, tuple)) and isinstance(idx, int):
                return base[idx]
            if isinstance(base, SymMap):
                return []          # the values of the on-map are not looked at by the kernels translated here
            raise Unsupported("subscript")
        if isinstance(n, ast.Call):
            return self.call(n, env)
        if isinstance(n, ast.Lambda):
            return ("lambda", n, env)
        if isinstance(n, ast.ListComp) and len(n.generators) == 1 and not n.generators[0].is_async:
            g = n.generators[0]
            out2: List[Any] = []
            for item in self.iterate(self.expr(g.iter, env)):
                e2 = dict(env)
                self.bind(g.target, item, e2)
                if all(self.ex.decide(self.truth(self.expr(c, e2))) for c in g.ifs):
                    out2.append(self.expr(n.elt, e2))
            return out2
        raise Unsupported(type(n).__name__)

    def slice(self, base: Any, lo: Any, hi: Any) -> Any:
        if isinstance(base, list):
            if _is_sym(lo) or _is_sym(hi):
                raise Unsupported("symbolic list slice")
            return base[lo:hi]
        if isinstance(base, str) and not _is_sym(lo) and not _is_sym(hi):
            return base[lo:hi]
        s = _S(base)
        n = z3.Length(s)
        # the common constant-offset forms get the plain str.substr term (its out-of-range behaviour coincides with
        # Python's clamping in these cases); anything else goes through the general clamping encoding
        if lo in (None, 0) and isinstance(hi, int):
            return z3.SubString(s, 0, n + hi) if hi < 0 else z3.SubString(s, 0, hi)
        if hi is None and isinstance(lo, int):
            return z3.SubString(s, lo, n) if lo >= 0 else z3.If(n >= -lo, z3.SubString(s, n + lo, -lo), s)

        def norm(i: Any, default: Any) -> Any:
            if i is None:
                return default
            if isinstance(i, int):
                if i < 0:
                    return z3.If(n + i < 0, 0, n + i)
                return z3.If(i > n, n, z3.IntVal(i))
            return z3.If(i < 0, z3.If(n + i < 0, 0, n + i), z3.If(i > n, n, i))

        a = norm(lo, z3.IntVal(0))
        b = norm(hi, n)
        return z3.If(b > a, z3.SubString(s, a, b - a), z3.StringVal(""))

    def iterate(self, v: Any) -> List[Any]:
        if isinstance(v, SymMap):
            return list(v.keys)
        if isinstance(v, (list, tuple)):
            return list(v)
        raise Unsupported("iteration over " + type(v).__name__)

    def bind(self, target: ast.AST, value: Any, env: Dict[str, Any]) -> None:
        if isinstance(target, ast.Name):
            env[target.id] = value
        elif isinstance(target, ast.Tuple) and isinstance(value, tuple) and len(value) == len(target.elts):
            for t, v in zip(target.elts, value):
                self.bind(t, v, env)
        else:
            raise Unsupported("assignment target")

    def keyfn(self, k: Any) -> Callable[[Any], Any]:
        if k is None:
            raise Unsupported("sort without key")
        if k == ("builtin", "len"):
            return self.length
        if isinstance(k, tuple) and k and k[0] == "lambda":
            lam, env0 = k[1], k[2]

            def f(x: Any) -> Any:
                e2 = dict(env0)
                e2[lam.args.args[0].arg] = x
                return self.expr(lam.body, e2)

            return f
        raise Unsupported("sort key")

    def length(self, v: Any) -> Any:
        if isinstance(v, (str, list, tuple)):
            return len(v)
        if isinstance(v, SymMap):
            return len(v.keys)
        if _is_sym(v) and z3.is_string(v):
            return z3.Length(v)
        raise Unsupported("len of " + type(v).__name__)

    def stable_sort(self, seq: List[Any], key: Any, reverse: Any) -> List[Any]:
        kf = self.keyfn(key)
        if _is_sym(reverse):
            reverse = self.ex.decide(self.truth(reverse))
        out: List[Tuple[Any, Any]] = []
        for x in seq:
            kx = kf(x)
            pos = len(out)
            # stable: move left past elements that must come AFTER x
            while pos > 0:
                ky = out[pos - 1][0]
                after = (ky < kx) if reverse else (ky > kx)
                if not self.ex.decide(after):
                    break
                pos -= 1
            out.insert(pos, (kx, x))
        return [x for _, x in out]

    def str_method(self, s: Any, name: str, args: List[Any]) -> Any:
        if name in ("startswith", "endswith"):
            pats = args[0] if isinstance(args[0], tuple) else (args[0],)
            if len(args) != 1:
                raise Unsupported(name + " with offsets")
            op = z3.PrefixOf if name == "startswith" else z3.SuffixOf
            terms = [op(_S(p), _S(s)) for p in pats]
            return z3.Or(*terms) if len(terms) != 1 else terms[0]
        if name == "removesuffix" and len(args) == 1:
            p = _S(args[0])
            ss = _S(s)
            return z3.If(z3.SuffixOf(p, ss), z3.SubString(ss, 0, z3.Length(ss) - z3.Length(p)), ss)
        if name == "removeprefix" and len(args) == 1:
            p = _S(args[0])
            ss = _S(s)
            return z3.If(z3.PrefixOf(p, ss), z3.SubString(ss, z3.Length(p), z3.Length(ss) - z3.Length(p)), ss)
        raise Unsupported("str." + name)

    def call(self, n: ast.Call, env: Dict[str, Any]) -> Any:
        kwargs = {k.arg: self.expr(k.value, env) for k in n.keywords}
        if isinstance(n.func, ast.Attribute):
            recv = self.expr(n.func.value, env)
            name = n.func.attr
            args = [self.expr(a, env) for a in n.args]
            if isinstance(recv, list):
                if name == "append":
                    recv.append(args[0])
                    return None
                if name == "extend":
                    recv.extend(self.iterate(args[0]))
                    return None
                if name == "insert" and isinstance(args[0], int):
                    recv.insert(args[0], args[1])
                    return None
                if name == "sort":
                    recv[:] = self.stable_sort(list(recv), kwargs.get("key"), kwargs.get("reverse", False))
                    return None
                if name == "reverse":
                    recv.reverse()
                    return None
                raise Unsupported("list." + name)
            if isinstance(recv, SymMap):
                if name == "keys":
                    return list(recv.keys)
                if name == "items":
                    return [(k, []) for k in recv.keys]
                if name == "get":
                    return []
                raise Unsupported("dict." + name)
            if isinstance(recv, str) and not any(_is_sym(a) for a in args):
                return getattr(recv, name)(*args)
            if isinstance(recv, str) or (_is_sym(recv) and z3.is_string(recv)):
                return self.str_method(recv, name, args)
            raise Unsupported("method " + name)
        f = self.expr(n.func, env)
        args = [self.expr(a, env) for a in n.args]
        if f == ("builtin", "len"):
            return self.length(args[0])
        if f == ("builtin", "sorted"):
            return self.stable_sort(self.iterate(args[0]), kwargs.get("key"), kwargs.get("reverse", False))
        if f == ("builtin", "list"):
            return self.iterate(args[0]) if args else []
        if f == ("builtin", "tuple"):
            return tuple(self.iterate(args[0])) if args else ()
        if f == ("builtin", "reversed"):
            return list(reversed(self.iterate(args[0])))
        if f in (("builtin", "any"), ("builtin", "all")):
            vals = [self.truth(v) for v in self.iterate(args[0])]
            zs = [v if _is_sym(v) else z3.BoolVal(v) for v in vals]
            if not zs:
                return f[1] == "all"
            return z3.Or(*zs) if f[1] == "any" else z3.And(*zs)
        raise Unsupported("call")

    # ---------------- statements ----------------
    def block(self, stmts: List[ast.stmt], env: Dict[str, Any]) -> None:
        for s in stmts:
            self.stmt(s, env)

    def stmt(self, s: ast.stmt, env: Dict[str, Any]) -> None:
        if isinstance(s, ast.Expr):
            if isinstance(s.value, ast.Constant):
                return
            self.expr(s.value, env)
            return
        if isinstance(s, ast.Assign):
            v = self.expr(s.value, env)
            for t in s.targets:
                self.bind(t, v, env)
            return
        if isinstance(s, ast.AnnAssign):
            if s.value is not None:
                self.bind(s.target, self.expr(s.value, env), env)
            return
        if isinstance(s, ast.AugAssign) and isinstance(s.target, ast.Name) and isinstance(s.op, ast.Add):
            cur = env[s.target.id]
            v = self.expr(s.value, env)
            if isinstance(cur, list):
                cur.extend(self.iterate(v))
            else:
                env[s.target.id] = cur + v
            return
        if isinstance(s, ast.If):
            if self.ex.decide(self.truth(self.expr(s.test, env))):
                self.block(s.body, env)
            else:
                self.block(s.orelse, env)
            return
        if isinstance(s, ast.For):
            broke = False
            for item in self.iterate(self.expr(s.iter, env)):
                self.bind(s.target, item, env)
                try:
                    self.block(s.body, env)
                except _Continue:
                    continue
                except _Break:
                    broke = True
                    break
            if not broke:
                self.block(s.orelse, env)
            return
        if isinstance(s, ast.Return):
            raise _Return(self.expr(s.value, env) if s.value is not None else None)
        if isinstance(s, ast.Continue):
            raise _Continue()
        if isinstance(s, ast.Break):
            raise _Break()
        if isinstance(s, ast.Pass):
            return
        raise Unsupported(type(s).__name__)


def function_ast(fn: Any) -> Tuple[ast.FunctionDef, Dict[str, Any]]:
    fn = getattr(fn, "__func__", fn)
    src = textwrap.dedent(inspect.getsource(fn))
    tree = ast.parse(src)
    fd = tree.body[0]
    if not isinstance(fd, ast.FunctionDef):
        raise Unsupported("not a plain function")
    return fd, getattr(fn, "__globals__", {})


def explore(fn: Any, make_args: Callable[[], Dict[str, Any]], assumptions: List[Any],
            on_return: Callable[[Explorer, Any], Optional[Any]], timeout_s: float, names: Optional[List[str]] = None) -> Dict[str, Any]:
    """DFS over all feasible paths of ``fn`` on the symbolic arguments.  ``on_return(explorer, value)`` is called at the
    end of each path with the path condition installed in ``explorer.pc`` and returns None (path ok) or a z3 model
    (counterexample).  Returns {verdict: confirmed|refuted|unknown, paths, z3_queries, solver_s, model, message}."""
    t0 = time.perf_counter()
    ex = Explorer(timeout_s, names=names)
    out: Dict[str, Any] = {"verdict": "unknown", "paths": 0, "model": None, "message": ""}
    try:
        fd, glob = function_ast(fn)
        ex.pending.append([])
        while ex.pending:
            ex.prefix = ex.pending.pop()
            ex.taken = []
            ex.pc = list(assumptions)
            it = Interp(ex, glob)
            env = make_args()
            try:
                it.block(fd.body, env)
                value = None
            except _Return as r:
                value = r.value
            except _Infeasible:
                continue
            out["paths"] += 1
            m = on_return(ex, value)
            if m is not None:
                out["verdict"] = "refuted"
                out["model"] = m
                break
        else:
            out["verdict"] = "confirmed"
    except Unsupported as e:
        out["verdict"] = "unknown"
        out["message"] = f"unsupported construct / solver unknown: {e}"
    except TimeoutError as e:
        out["verdict"] = "unknown"
        out["message"] = str(e)
    out["z3_queries"] = ex.queries
    out["cvc5_queries"] = ex.cvc5_queries
    out["solver_s"] = round(ex.solver_s, 3)
    out["wall_s"] = round(time.perf_counter() - t0, 3)
    return out


def model_str(model: Any, var: Any) -> str:
    """Python str of a z3 string value (decodes \\u{...} escapes)."""
    import re

    if isinstance(model, dict):
        return model.get(str(var), "")
    v = model.eval(var, model_completion=True)
    s = v.as_string()
    return re.sub(r"\\u\{([0-9a-fA-F]+)\}", lambda m: chr(int(m.group(1), 16)), s)
