"""Reference oracles. Short, independent of the library's algorithms: they only
read the *structure* of the parsed machine (``.parent``, ``.states``, ``.type``,
``.initial``, ``.history``) and never call interpreter code."""
from __future__ import annotations

from typing import Any, Dict, Iterable, List, Optional, Sequence, Set, Tuple


# ---------------------------------------------------------------------------
# structure helpers
# ---------------------------------------------------------------------------

def real_children(node: Any) -> List[Any]:
    return [c for c in node.states.values() if c.type != "history"]


def ancestors(node: Any) -> List[Any]:
    """Proper ancestors, nearest first."""
    out = []
    cur = node.parent
    while cur is not None:
        out.append(cur)
        cur = cur.parent
    return out


def is_desc(node: Any, anc: Any) -> bool:
    """node is anc or a descendant of anc (by parent links)."""
    cur = node
    while cur is not None:
        if cur is anc:
            return True
        cur = cur.parent
    return False


def doc_order(machine: Any) -> List[Any]:
    out: List[Any] = []

    def walk(n: Any) -> None:
        out.append(n)
        for c in n.states.values():
            walk(c)

    walk(machine)
    return out


# ---------------------------------------------------------------------------
# C01: legality
# ---------------------------------------------------------------------------

def legal_reason(active: Iterable[Any], machine: Any, root: Any = None) -> Optional[str]:
    """None if ``active`` is a legal configuration of ``machine``; otherwise a
    short reason. The five clauses of C01, literally. With ``root`` given the
    same clauses are applied to a sub-configuration rooted at that state."""
    act = list(active)
    ids = {id(n) for n in act}
    top = root if root is not None else machine
    if id(top) not in ids:
        return "root not active"
    for n in act:
        if n.type == "history":
            return f"history pseudo-state active: {n.id}"
        if n is not top and (n.parent is None or id(n.parent) not in ids):
            return f"parent of active state not active: {n.id}"
        if n.type == "compound":
            k = sum(1 for c in n.states.values() if id(c) in ids)
            if k != 1:
                return f"compound {n.id} has {k} active children"
        elif n.type == "parallel":
            for c in n.states.values():
                if c.type != "history" and id(c) not in ids:
                    return f"parallel {n.id} region not active: {c.id}"
    return None


def legal(active: Iterable[Any], machine: Any) -> bool:
    return legal_reason(active, machine) is None


def legal_ids(ids: Iterable[str], machine: Any) -> Optional[str]:
    """Same oracle over a collection of state-id strings (snapshots)."""
    by_id = {n.id: n for n in doc_order(machine)}
    nodes = []
    for i in ids:
        if i not in by_id:
            return f"unknown state id in configuration: {i}"
        nodes.append(by_id[i])
    if len(set(ids)) != len(list(ids)):
        return "duplicate ids"
    return legal_reason(nodes, machine)


# ---------------------------------------------------------------------------
# default descent / entry sets (SCXML, single target)
# ---------------------------------------------------------------------------

def default_descent(node: Any) -> List[Any]:
    """node plus everything entered by default below it, in entry order
    (ancestor before child, regions in document order)."""
    out = [node]
    if node.type == "compound":
        init = node.states.get(node.initial) if node.initial else None
        if init is not None:
            out.extend(default_descent(init))
    elif node.type == "parallel":
        for c in node.states.values():
            if c.type != "history":
                out.extend(default_descent(c))
    return out


def lca_domain(source: Any, target: Any) -> Optional[Any]:
    """SCXML transition domain for an external single-target transition as
    this library defines it: the nearest proper ancestor of *both* source and
    target that is a compound/parallel state (or None for the root's parent).
    For target == source, or target an ancestor of source, the domain is
    target.parent; for target a descendant of source it is source itself (the
    library treats these as 'internal-ish': source is not exited)."""
    if target is source:
        return source.parent
    if is_desc(source, target):  # target is an ancestor of source
        return target.parent
    cur = source
    while cur is not None:
        if is_desc(target, cur):
            return cur
        cur = cur.parent
    return None


# ---------------------------------------------------------------------------
# C20: event descriptors
# ---------------------------------------------------------------------------

INTERNAL_PREFIXES = ("done.", "error.", "after.", "xstate.")


def descriptor_ref(keys: Sequence[str], ev: str) -> List[str]:
    """Keys of one state's ``on`` map that match event type ``ev``, most
    specific first: the identical key; then partial descriptors 'p.*' (where
    'p.*' matches 'p' itself and anything beginning 'p.') by decreasing prefix
    length; then '*'. Engine-internal events match their identical key only.
    Written from the property statement, not from the library."""
    out: List[str] = []
    if len(keys) == 0 or len(ev) == 0:
        return out
    for k in keys:
        if k == ev:
            out.append(k)
            break
    for pref in INTERNAL_PREFIXES:
        if ev.startswith(pref):
            return out
    cands: List[str] = []
    for k in keys:
        if k == "*" or len(k) < 2 or k[-2:] != ".*":
            continue
        p = k[: len(k) - 2]
        if ev == p or ev.startswith(p + "."):
            cands.append(k)
    # decreasing prefix length (stable for equal lengths = declaration order)
    ordered: List[str] = []
    while cands:
        best = 0
        for i in range(1, len(cands)):
            if len(cands[i]) > len(cands[best]):
                best = i
        ordered.append(cands.pop(best))
    out.extend(ordered)
    for k in keys:
        if k == "*":
            out.append("*")
            break
    return out


def dedup(seq: Sequence[Any]) -> List[Any]:
    out: List[Any] = []
    for x in seq:
        if x not in out:
            out.append(x)
    return out


# ---------------------------------------------------------------------------
# C11: history
# ---------------------------------------------------------------------------

def complete_config(seeds: Sequence[Any], top: Any) -> List[Any]:
    """SCXML addDescendantStatesToEnter/addAncestorStatesToEnter for target
    states ``seeds`` below ``top``: the seeds, their ancestors up to and
    including ``top``, and the default descent of every compound/parallel
    state that has no member yet. Returned in document order."""
    chosen: List[Any] = []

    def add(n: Any) -> None:
        if not any(n is c for c in chosen):
            chosen.append(n)

    for s in seeds:
        cur = s
        while cur is not None:
            add(cur)
            if cur is top:
                break
            cur = cur.parent
    changed = True
    while changed:
        changed = False
        for n in list(chosen):
            if n.type == "compound":
                if not any(c.parent is n for c in chosen):
                    init = n.states.get(n.initial) if n.initial else None
                    if init is not None:
                        for d in default_descent(init):
                            add(d)
                        changed = True
            elif n.type == "parallel":
                for r in real_children(n):
                    if not any(c is r for c in chosen):
                        for d in default_descent(r):
                            add(d)
                        changed = True
    order = {id(n): i for i, n in enumerate(doc_order(_root_of(top)))}
    chosen.sort(key=lambda n: order[id(n)])
    return chosen


def _root_of(n: Any) -> Any:
    while n.parent is not None:
        n = n.parent
    return n


def history_ref(hist_node: Any, recorded: Optional[Sequence[Any]], resolve_default: Any) -> List[Any]:
    """Expected active sub-configuration below (and including) the history
    node's parent after a transition, taken from OUTSIDE the parent, that
    targets ``hist_node``. ``recorded`` = descendants of the parent active when
    it was last exited (None = never exited). ``resolve_default`` maps the
    history node's declared default target string to a node (or None)."""
    parent = hist_node.parent
    if recorded:
        if hist_node.history == "deep":
            seeds = [n for n in recorded if n.type in ("atomic", "final")]
        else:
            seeds = [n for n in recorded if n.parent is parent]
        return complete_config(seeds, parent)
    tgt = hist_node.target_str
    if tgt:
        node = resolve_default(tgt)
        if node is not None:
            return complete_config([node], parent)
    return complete_config([parent], parent)
