"""Virtual-time asyncio event loop (stub ``VLoop``).

Contract modelled (asyncio's documented ordering): ready callbacks run FIFO;
timers fire by deadline, ties by insertion; time only passes when nothing is
runnable, and then jumps exactly to the next deadline. No sockets, no real
clock: ``time()`` returns the virtual instant (a number that may be symbolic
under CrossHair, so z3 decides the order of deadlines).
"""
from __future__ import annotations

import asyncio
from asyncio import base_events
from typing import Any, Coroutine, List, Optional


class Deadlock(RuntimeError):
    """run_until_complete() cannot make progress: nothing ready, nothing scheduled."""


class _FakeSelector:
    def __init__(self, loop: "VLoop") -> None:
        self._loop = loop

    def select(self, timeout: Optional[float] = None) -> List[Any]:
        lp = self._loop
        if timeout is None:
            raise Deadlock("event loop idle forever: nothing ready and nothing scheduled")
        if timeout > 0:
            # jump exactly to the next deadline (BaseEventLoop passed when - time())
            sched = lp._scheduled
            if sched:
                lp._vnow = sched[0]._when
            else:  # pragma: no cover
                lp._vnow = lp._vnow + timeout
        return []

    def close(self) -> None:
        return None


class VLoop(base_events.BaseEventLoop):
    def __init__(self, start: Any = 0.0) -> None:
        super().__init__()
        self._vnow = start
        self._clock_resolution = 1e-9
        self._selector = _FakeSelector(self)
        self.run_once_count = 0

    def time(self) -> Any:  # type: ignore[override]
        return self._vnow

    def _process_events(self, event_list: Any) -> None:
        return None

    def _write_to_self(self) -> None:
        return None

    def _run_once(self) -> None:  # type: ignore[override]
        self.run_once_count += 1
        super()._run_once()

    def advance_to(self, t: Any) -> None:
        """Virtual sleep used by harness code outside the loop."""
        if t > self._vnow:
            self._vnow = t


def run(coro: Coroutine[Any, Any, Any], loop: Optional[VLoop] = None) -> Any:
    """Runs ``coro`` to completion on a fresh (or given) VLoop."""
    own = loop is None
    lp = loop or VLoop()
    try:
        asyncio.set_event_loop(lp)
        return lp.run_until_complete(coro)
    finally:
        if own:
            try:
                pending = [t for t in asyncio.all_tasks(lp) if not t.done()]
                for t in pending:
                    t.cancel()
                if pending:
                    lp.run_until_complete(asyncio.gather(*pending, return_exceptions=True))
            except BaseException:
                pass
            asyncio.set_event_loop(None)
            lp.close()
